//! C09 — basic normalization establishes the IR invariants analyses rely on.
//!
//! Generated: raw IR projects shaped like the lifter's output for what the Ghidra plugin emits
//! (`sub_<addr>`, `blk_<addr>[_<n>|_r]`, `instr_<addr>_<n>[_r]`, program `prog_<addr>`;
//! Branch/CBranch/return-to/hint targets are block tids, call targets sub or extern tids) with
//! injected irregularities: dangling branch / call / return-to / hint targets, blocks reachable
//! from or listed in several subs, duplicated block / def / jmp tids (never a sub tid, never the
//! tid of an entry block), calls to `no_return` extern symbols and to subs without `Return`,
//! empty subs, recursion.
//! Oracle after `Project::normalize_basic()` (must not panic): (1) all tids pairwise distinct,
//! (2) every originally non-empty sub keeps its entry tid as `blocks[0]`, (3) every direct
//! target exists and every intraprocedural one (incl. hints, return-to) is a block of the same
//! sub, (4) calls to non-returning callees return to the caller's artificial sink block, which
//! exists, (5) `get_program_cfg_with_logs` does not panic and equals the C08 specification.

use super::c08_spec::{check_entry_nodes, compare, observe, specify, stray_reference};
use crate::engine::{CaseResult, Ctx, Engine, RandomSpec};
use crate::irb;
use crate::tape::{fnv, Tape};
use cwe_checker_lib::analysis::graph::{get_entry_nodes_of_subs, get_program_cfg_with_logs};
use cwe_checker_lib::intermediate_representation::*;
use std::collections::{BTreeMap, BTreeSet};

/// A decoded raw program: subs in program order and extern symbols `(tid, no_return)`.
#[derive(Clone, Debug, PartialEq, Eq)]
pub struct Raw {
    pub subs: Vec<Term<Sub>>,
    pub externs: Vec<(Tid, bool)>,
}

fn sub_addr(i: usize) -> u64 {
    0x1000 * (i as u64 + 1)
}
fn blk_addr(i: usize, k: usize) -> u64 {
    sub_addr(i) + 0x10 * k as u64
}
fn ext_addr(e: usize) -> u64 {
    0xf000 + 0x10 * e as u64
}
fn hex8(a: u64) -> String {
    format!("{:08x}", a)
}

struct Profile {
    p_dangling: u16,
    p_cross: u16,
    p_dup: u16,
}

/// Phase-1 description of a block: its final tid and whether it is an exact clone of an
/// earlier block (overlapping function bodies).
struct Slot {
    tid: Tid,
    addr: u64,
    clone_of: Option<(usize, usize)>,
    r_shape: bool,
}

fn pick_block_target(t: &mut Tape, slots: &[Vec<Slot>], cur: usize, p: &Profile) -> Tid {
    if p.p_dangling > 0 && t.prob(p.p_dangling) {
        let a = 0x9000 + 0x10 * t.below(4) as u64;
        return match t.below(3) {
            0 => irb::blk_tid(a),
            1 => irb::tid(&format!("blk_{}_2", hex8(a)), &hex8(a)),
            _ => irb::tid(&format!("blk_{}_r", hex8(a)), &hex8(a)),
        };
    }
    if p.p_cross > 0 && t.prob(p.p_cross) {
        let total: usize = slots.iter().map(|s| s.len()).sum();
        let mut idx = t.below(total);
        let allow_entry = t.prob(64);
        for (s, bl) in slots.iter().enumerate() {
            if idx < bl.len() {
                if idx == 0 && s != cur && !allow_entry {
                    break; // entry of another sub only with extra probability
                }
                return bl[idx].tid.clone();
            }
            idx -= bl.len();
        }
    }
    let bl = &slots[cur];
    bl[t.below(bl.len())].tid.clone()
}

/// Hints are addresses in the extractor's output; the lifter turns them into `blk_<addr>`.
fn pick_hint(t: &mut Tape, slots: &[Vec<Slot>], cur: usize, p: &Profile) -> Tid {
    if p.p_dangling > 0 && t.prob(p.p_dangling) {
        return irb::blk_tid(0x9000 + 0x10 * t.below(4) as u64);
    }
    if p.p_cross > 0 && t.prob(p.p_cross) {
        let total: usize = slots.iter().map(|s| s.len()).sum();
        let mut idx = t.below(total);
        for bl in slots.iter() {
            if idx < bl.len() {
                return irb::blk_tid(bl[idx].addr);
            }
            idx -= bl.len();
        }
    }
    let bl = &slots[cur];
    irb::blk_tid(bl[t.below(bl.len())].addr)
}

pub fn decode(t: &mut Tape) -> Raw {
    let n_subs = 1 + t.below(5);
    let n_ext = t.below(3);
    let p = Profile { p_dangling: *t.choose(&[0u16, 24, 64]), p_cross: *t.choose(&[0u16, 32, 96]), p_dup: *t.choose(&[0u16, 20, 56]) };
    let externs: Vec<(Tid, bool)> = (0..n_ext).map(|e| (irb::sub_tid(ext_addr(e)), t.prob(128))).collect();
    let counts: Vec<usize> = (0..n_subs).map(|_| t.below(7)).collect();
    // phase 1: block tids
    let mut slots: Vec<Vec<Slot>> = vec![];
    let mut nonentry: Vec<(usize, usize)> = vec![];
    for s in 0..n_subs {
        let mut v: Vec<Slot> = vec![];
        for k in 0..counts[s] {
            let addr = blk_addr(s, k);
            if k == 0 {
                v.push(Slot { tid: irb::blk_tid(addr), addr, clone_of: None, r_shape: false });
                continue;
            }
            if p.p_dup > 0 && !nonentry.is_empty() && t.prob(p.p_dup) {
                let (ss, kk) = nonentry[t.below(nonentry.len())];
                let src: &Slot = if ss == s { &v[kk] } else { &slots[ss][kk] };
                let tid = src.tid.clone();
                let r_shape = src.r_shape;
                let src_addr = src.addr;
                let clone = t.prob(128);
                // a clone keeps the source's address in its instr tids; a differing duplicate has its own
                v.push(Slot { tid, addr: if clone { src_addr } else { addr }, clone_of: if clone { Some((ss, kk)) } else { None }, r_shape });
            } else {
                let (tid, r_shape) = match t.below(4) {
                    0 | 1 => (irb::blk_tid(addr), false),
                    2 => (irb::tid(&format!("blk_{}_{}", hex8(addr), 1 + t.below(4)), &hex8(addr)), false),
                    _ => (irb::tid(&format!("blk_{}_r", hex8(addr)), &hex8(addr)), true),
                };
                v.push(Slot { tid, addr, clone_of: None, r_shape });
            }
            nonentry.push((s, k));
        }
        slots.push(v);
    }
    // phase 2: contents
    let rax = irb::var("RAX", 8);
    let rbx = irb::var("RBX", 8);
    let zf = irb::var("ZF", 1);
    const KINDS: [u8; 13] = [0, 1, 2, 3, 4, 4, 5, 6, 7, 1, 3, 4, 5];
    let mut instr_tids: Vec<Tid> = vec![];
    let mut built: Vec<Vec<Term<Blk>>> = vec![];
    for s in 0..n_subs {
        let mut bl: Vec<Term<Blk>> = vec![];
        for k in 0..counts[s] {
            let slot = &slots[s][k];
            if let Some((ss, kk)) = slot.clone_of {
                let src = if ss == s { bl[kk].clone() } else { built[ss][kk].clone() };
                bl.push(src);
                continue;
            }
            // the instr tids of a block are derived from the address of the block's position
            let a = blk_addr(s, k);
            let ndefs = t.below(3);
            let mut defs = vec![];
            for d in 0..ndefs {
                let mut tid = irb::instr_tid(a, d);
                if p.p_dup > 0 && !instr_tids.is_empty() && t.prob(p.p_dup / 2) {
                    tid = instr_tids[t.below(instr_tids.len())].clone();
                }
                instr_tids.push(tid.clone());
                defs.push(irb::assign(tid, &rbx, irb::ebin(BinOpType::IntAdd, irb::evar(&rbx), irb::econst(d as i128 + 1, 8))));
            }
            let kind = *t.choose(&KINDS);
            let mut hints = vec![];
            let jt = |n: usize| {
                if slot.r_shape {
                    irb::tid(&format!("instr_{}_{}_r", hex8(a), n), &hex8(a))
                } else {
                    irb::instr_tid(a, ndefs + n)
                }
            };
            let mut jmps: Vec<Term<Jmp>> = match kind {
                0 => vec![],
                1 => vec![irb::jmp(jt(0), Jmp::Return(irb::evar(&rax)))],
                2 => vec![irb::jmp(jt(0), Jmp::Branch(pick_block_target(t, &slots, s, &p)))],
                3 => {
                    let a1 = pick_block_target(t, &slots, s, &p);
                    let a2 = pick_block_target(t, &slots, s, &p);
                    vec![irb::jmp(jt(0), Jmp::CBranch { target: a1, condition: irb::evar(&zf) }), irb::jmp(jt(1), Jmp::Branch(a2))]
                }
                4 => {
                    let target = if p.p_dangling > 0 && t.prob(p.p_dangling) {
                        irb::sub_tid(0xa000 + 0x100 * t.below(2) as u64)
                    } else {
                        let c = t.below(n_subs + n_ext);
                        if c < n_subs {
                            irb::sub_tid(sub_addr(c))
                        } else {
                            irb::sub_tid(ext_addr(c - n_subs))
                        }
                    };
                    let return_ = if t.prob(220) { Some(pick_block_target(t, &slots, s, &p)) } else { None };
                    vec![irb::jmp(jt(0), Jmp::Call { target, return_ })]
                }
                5 => {
                    let n = t.below(4);
                    for _ in 0..n {
                        let h = pick_hint(t, &slots, s, &p);
                        if !hints.contains(&h) {
                            hints.push(h);
                        }
                    }
                    vec![irb::jmp(jt(0), Jmp::BranchInd(irb::evar(&rax)))]
                }
                6 => {
                    let return_ = if t.prob(220) { Some(pick_block_target(t, &slots, s, &p)) } else { None };
                    vec![irb::jmp(jt(0), Jmp::CallInd { target: irb::evar(&rax), return_ })]
                }
                _ => {
                    let return_ = if t.prob(220) { Some(pick_block_target(t, &slots, s, &p)) } else { None };
                    vec![irb::jmp(jt(0), Jmp::CallOther { description: "syscall".into(), return_ })]
                }
            };
            for j in jmps.iter_mut() {
                if p.p_dup > 0 && !instr_tids.is_empty() && t.prob(p.p_dup / 2) {
                    j.tid = instr_tids[t.below(instr_tids.len())].clone();
                }
                instr_tids.push(j.tid.clone());
            }
            let mut b = irb::blk(slot.tid.clone(), defs, jmps);
            b.term.indirect_jmp_targets = hints;
            bl.push(b);
        }
        built.push(bl);
    }
    let subs = built.into_iter().enumerate().map(|(s, bl)| irb::sub(irb::sub_tid(sub_addr(s)), &format!("f{}", s), bl)).collect();
    Raw { subs, externs }
}

pub fn build(raw: &Raw) -> Project {
    let externs = raw.externs.iter().enumerate().map(|(e, (tid, nr))| irb::extern_symbol(tid.clone(), &format!("ext{}", e), &["RDI"], *nr)).collect();
    let mut p = irb::project(raw.subs.clone(), externs, vec![]);
    p.program.tid = irb::tid("prog_00001000", "00001000");
    p
}

pub fn describe(raw: &Raw) -> String {
    let p = build(raw);
    let mut s = format!("{}", p.program.term);
    for (sub_tid, sub) in &p.program.term.subs {
        for b in &sub.term.blocks {
            if !b.term.indirect_jmp_targets.is_empty() {
                s.push_str(&format!("HINTS {} / {}: {:?}\n", sub_tid, b.tid, b.term.indirect_jmp_targets.iter().map(|t| t.to_string()).collect::<Vec<_>>()));
            }
        }
    }
    for (t, nr) in &raw.externs {
        s.push_str(&format!("EXTERN {} no_return={}\n", t, nr));
    }
    s
}

fn has_return(s: &Term<Sub>) -> bool {
    s.term.blocks.iter().any(|b| b.term.jmps.iter().any(|j| matches!(j.term, Jmp::Return(_))))
}

pub const KINDS: [&str; 13] = [
    "dangling-branch",
    "dangling-call",
    "dangling-return-to",
    "dangling-hint",
    "shared-by-target",
    "block-listed-in-several-subs",
    "duplicate-block-tid-in-sub",
    "duplicate-def-tid",
    "duplicate-jmp-tid",
    "call-to-noreturn-extern",
    "call-to-sub-without-return",
    "empty-sub",
    "recursion",
];

/// Which irregularity kinds does the raw program contain? (indices into `KINDS`)
pub fn irregularities(p: &Project) -> BTreeSet<usize> {
    let prog = &p.program.term;
    let mut k = BTreeSet::new();
    let mut all_blocks: BTreeSet<&Tid> = BTreeSet::new();
    let mut owners: BTreeMap<&Tid, BTreeSet<&Tid>> = BTreeMap::new();
    for s in prog.subs.values() {
        let mut in_sub: BTreeSet<&Tid> = BTreeSet::new();
        for b in &s.term.blocks {
            all_blocks.insert(&b.tid);
            owners.entry(&b.tid).or_default().insert(&s.tid);
            if !in_sub.insert(&b.tid) {
                k.insert(6);
            }
        }
        if s.term.blocks.is_empty() {
            k.insert(11);
        }
    }
    if owners.values().any(|o| o.len() > 1) {
        k.insert(5);
    }
    // duplicate instr tids: count occurrences over the blocks that survive block deduplication
    // (first occurrence of each block tid in program order)
    let mut seen_blocks: BTreeSet<&Tid> = BTreeSet::new();
    let mut seen_instr: BTreeSet<&Tid> = BTreeSet::new();
    for s in prog.subs.values() {
        for b in &s.term.blocks {
            if !seen_blocks.insert(&b.tid) {
                continue;
            }
            for d in &b.term.defs {
                if !seen_instr.insert(&d.tid) {
                    k.insert(7);
                }
            }
            for j in &b.term.jmps {
                if !seen_instr.insert(&j.tid) {
                    k.insert(8);
                }
            }
        }
    }
    for s in prog.subs.values() {
        let own: BTreeSet<&Tid> = s.term.blocks.iter().map(|b| &b.tid).collect();
        for b in &s.term.blocks {
            let mut intra = |t: &Tid, dangling_kind: usize, k: &mut BTreeSet<usize>| {
                if !all_blocks.contains(t) {
                    k.insert(dangling_kind);
                } else if !own.contains(t) {
                    k.insert(4);
                }
            };
            for j in &b.term.jmps {
                match &j.term {
                    Jmp::Branch(t) | Jmp::CBranch { target: t, .. } => intra(t, 0, &mut k),
                    Jmp::Call { target, return_ } => {
                        if let Some(r) = return_ {
                            intra(r, 2, &mut k);
                        }
                        if let Some(e) = prog.extern_symbols.get(target) {
                            if e.no_return && return_.is_some() {
                                k.insert(9);
                            }
                        } else if let Some(callee) = prog.subs.get(target) {
                            if !has_return(callee) && return_.is_some() {
                                k.insert(10);
                            }
                            if callee.tid == s.tid {
                                k.insert(12);
                            }
                        } else {
                            k.insert(1);
                        }
                    }
                    Jmp::CallInd { return_: Some(r), .. } | Jmp::CallOther { return_: Some(r), .. } => intra(r, 2, &mut k),
                    _ => {}
                }
            }
            for h in &b.term.indirect_jmp_targets {
                intra(h, 3, &mut k);
            }
        }
    }
    k
}

fn is_sink_sub(t: &Tid) -> bool {
    t.to_string() == "Artificial Sink Sub"
}

/// The invariants (1)–(4) on the normalized project. `Ok(true)` iff all of them held (so that
/// the CFG specification is defined).
fn check_invariants(raw: &Project, out: &Project, ctx: &mut Ctx) -> Result<bool, crate::engine::Failure> {
    let mut ok = true;
    let prog = &out.program.term;
    // (1) unique tids
    let mut seen: BTreeSet<&Tid> = BTreeSet::new();
    seen.insert(&out.program.tid);
    let mut dup: Option<(&'static str, &Tid)> = None;
    for s in prog.subs.values() {
        if !seen.insert(&s.tid) {
            dup = dup.or(Some(("sub", &s.tid)));
        }
        for b in &s.term.blocks {
            if !seen.insert(&b.tid) {
                dup = dup.or(Some(("block", &b.tid)));
            }
            for d in &b.term.defs {
                if !seen.insert(&d.tid) {
                    dup = dup.or(Some(("def", &d.tid)));
                }
            }
            for j in &b.term.jmps {
                if !seen.insert(&j.tid) {
                    dup = dup.or(Some(("jmp", &j.tid)));
                }
            }
        }
    }
    if let Some((kind, t)) = dup {
        ok = false;
        ctx.report(format!("C09:duplicate-tid-after-normalization:{}", kind), format!("tid {} occurs more than once after normalize_basic", t))?;
    }
    // (2) entry blocks
    for (t, s) in &raw.program.term.subs {
        match prog.subs.get(t) {
            None => {
                ok = false;
                ctx.report("C09:sub-removed", format!("sub {} is missing after normalize_basic", t))?;
            }
            Some(o) => {
                if let Some(e) = s.term.blocks.first() {
                    if o.term.blocks.first().map(|b| &b.tid) != Some(&e.tid) {
                        ok = false;
                        ctx.report(
                            "C09:entry-block-changed",
                            format!("sub {} started with {} but starts with {:?} after normalize_basic", t, e.tid, o.term.blocks.first().map(|b| b.tid.to_string())),
                        )?;
                    }
                }
            }
        }
    }
    // (3) targets
    let mut owner: BTreeMap<&Tid, &Tid> = BTreeMap::new();
    for s in prog.subs.values() {
        for b in &s.term.blocks {
            owner.entry(&b.tid).or_insert(&s.tid);
        }
    }
    for s in prog.subs.values() {
        for b in &s.term.blocks {
            let mut bad: Vec<(String, String)> = vec![];
            let mut intra = |t: &Tid, what: &str, bad: &mut Vec<(String, String)>| match owner.get(t) {
                None => bad.push((format!("C09:dangling-{}", what), format!("{} {} in block {} of {} names no block", what, t, b.tid, s.tid))),
                Some(o) if **o != s.tid => bad.push((format!("C09:cross-sub-{}", what), format!("{} {} in block {} of {} is a block of {}", what, t, b.tid, s.tid, o))),
                _ => {}
            };
            for j in &b.term.jmps {
                match &j.term {
                    Jmp::Branch(t) | Jmp::CBranch { target: t, .. } => intra(t, "branch-target", &mut bad),
                    Jmp::Call { target, return_ } => {
                        if !prog.subs.contains_key(target) && !prog.extern_symbols.contains_key(target) {
                            bad.push(("C09:dangling-call-target".into(), format!("call {} in {} targets {} which is neither a sub nor an extern symbol", j.tid, s.tid, target)));
                        }
                        if let Some(r) = return_ {
                            intra(r, "return-target", &mut bad);
                        }
                    }
                    Jmp::CallInd { return_: Some(r), .. } | Jmp::CallOther { return_: Some(r), .. } => intra(r, "return-target", &mut bad),
                    _ => {}
                }
            }
            for h in &b.term.indirect_jmp_targets {
                intra(h, "hint", &mut bad);
            }
            for (sig, detail) in bad {
                ok = false;
                ctx.report(sig, detail)?;
            }
        }
    }
    // (4) non-returning calls
    // raw call sites that survive deduplication and whose return site exists: (sub, jmp tid) -> return tid
    let mut raw_calls: BTreeMap<(&Tid, &Tid), &Tid> = BTreeMap::new();
    {
        let rp = &raw.program.term;
        let raw_blocks: BTreeSet<&Tid> = rp.subs.values().flat_map(|s| s.term.blocks.iter().map(|b| &b.tid)).collect();
        let mut seen_b: BTreeSet<&Tid> = BTreeSet::new();
        let mut seen_i: BTreeSet<&Tid> = BTreeSet::new();
        for s in rp.subs.values() {
            for b in &s.term.blocks {
                if !seen_b.insert(&b.tid) {
                    continue;
                }
                for d in &b.term.defs {
                    seen_i.insert(&d.tid);
                }
                for j in &b.term.jmps {
                    if seen_i.insert(&j.tid) {
                        if let Jmp::Call { return_: Some(r), .. } = &j.term {
                            if raw_blocks.contains(r) {
                                raw_calls.insert((&s.tid, &j.tid), r);
                            }
                        }
                    }
                }
            }
        }
    }
    let mut lost_return_site = false;
    for s in prog.subs.values() {
        if is_sink_sub(&s.tid) {
            continue;
        }
        let sink = Tid::new(format!("Artificial Sink Block_{}", s.tid));
        for b in &s.term.blocks {
            for j in &b.term.jmps {
                if let Jmp::Call { target, return_: Some(r) } = &j.term {
                    let nonret = if let Some(e) = prog.extern_symbols.get(target) {
                        e.no_return
                    } else if let Some(callee) = prog.subs.get(target) {
                        !is_sink_sub(&callee.tid) && !has_return(callee)
                    } else {
                        false
                    };
                    if nonret {
                        if *r != sink {
                            ok = false;
                            let what = if prog.extern_symbols.contains_key(target) { "extern" } else { "sub" };
                            ctx.report(
                                format!("C09:nonreturning-call-not-retargeted:{}", what),
                                format!("call {} in {} to non-returning {} returns to {} instead of {}", j.tid, s.tid, target, r, sink),
                            )?;
                        } else if !s.term.blocks.iter().any(|b| b.tid == sink) {
                            ok = false;
                            ctx.report("C09:artificial-sink-missing", format!("call {} in {} returns to {} but {} has no such block", j.tid, s.tid, sink, s.tid))?;
                        }
                    } else if let Some(raw_r) = raw_calls.get(&(&s.tid, &j.tid)) {
                        // Not part of the property statement, only measured: a call to a returning
                        // callee whose return site existed should still return there (or to the
                        // sub's copy of that block).
                        if r != *raw_r && r.to_string() != format!("{}_{}", raw_r, s.tid) {
                            lost_return_site = true;
                        }
                    }
                }
            }
        }
    }
    if lost_return_site {
        ctx.label("measured:returning-call-lost-its-return-site");
    }
    Ok(ok)
}

pub fn run_case(raw: &Raw, ctx: &mut Ctx) -> CaseResult {
    let raw_project = build(raw);
    let kinds = irregularities(&raw_project);
    for k in &kinds {
        ctx.label(KINDS[*k]);
    }
    if kinds.len() >= 2 {
        ctx.nontrivial(fnv(format!("{:?}", raw).as_bytes()));
        ctx.label("two-or-more-kinds");
    }
    if kinds.len() >= 4 {
        ctx.label("four-or-more-kinds");
    }
    ctx.sample(|| describe(raw));
    let mut project = raw_project.clone();
    if ctx.cut(|| project.normalize_basic())?.is_none() {
        return Ok(());
    }
    if !check_invariants(&raw_project, &project, ctx)? {
        return Ok(()); // only reachable behind known findings
    }
    // (5) the CFG of the result
    let (spec, info) = specify(&project.program).expect("invariants (1) and (3) make the CFG specification defined");
    if info.shared_pairs > 0 {
        // cannot happen when (3) holds
        ctx.report("C09:cfg:shared-pairs-after-normalization", "the specified CFG contains (block, sub) pairs of blocks not listed in the sub")?;
    }
    if info.call_returns > 0 {
        ctx.label("cfg-with-return-linkage");
    }
    let (g, _logs) = match ctx.cut(|| get_program_cfg_with_logs(&project.program))? {
        Some(x) => x,
        None => return Ok(()),
    };
    let obs = observe(&g);
    if let Some((class, detail)) = compare(&spec, &obs) {
        ctx.report(format!("C09:cfg:{}", class), detail)?;
    }
    if let Some(d) = stray_reference(&g, &project.program) {
        ctx.report("C09:cfg:stray-term-reference", d)?;
    }
    if let Some(entries) = ctx.cut(|| get_entry_nodes_of_subs(&g))? {
        if let Some((class, detail)) = check_entry_nodes(&project.program, &g, &entries) {
            ctx.report(format!("C09:cfg:{}", class), detail)?;
        }
    }
    Ok(())
}

pub fn run(eng: &mut Engine) {
    eng.rule = "cases = raw extractor-shaped projects (1..5 subs sub_<addr>, 0..6 blocks blk_<addr>[_<n>|_r] each, defs/jmps instr_<addr>_<n>[_r], 0..2 extern symbols with random no_return) with per-case probabilities for dangling targets (branch, call, return-to, hint), cross-sub targets, duplicated block tids (differing or exact clones, same or other sub; never an entry block) and duplicated def/jmp tids; normalize_basic must not panic and establish invariants (1)-(5); non-trivial = at least two different irregularity kinds present; distinct by hash of the decoded program".into();
    eng.assumptions = vec![
        "Branch/CBranch/return-to/hint targets are block-shaped tids, call targets sub-shaped tids (TermCreator.java/JumpProcessing.java)".into(),
        "no tid of a sub and no tid of the entry block of a sub is duplicated (excluded by the property; remove_duplicate_tids panics on duplicate sub tids by design)".into(),
        "blocks end in [], [Branch], [CBranch, Branch], [BranchInd]+hints, [Call], [CallInd], [CallOther] or [Return]; hints only on BranchInd blocks and without repeated entries".into(),
        "the entry block of a non-empty sub is blocks[0] (into_ir_sub_term establishes this before normalization)".into(),
        "invariant (4) is evaluated on the output: a callee is non-returning iff it is an extern symbol flagged no_return or a sub (other than the artificial sink sub) that contains no Return after normalization".into(),
    ];
    let cases = eng.tier.pick(1_000_000u64, 8_000_000u64);
    eng.random(
        "raw-programs",
        RandomSpec { cases, max_tape: 300 },
        |tape: &[u8], ctx: &mut Ctx| -> CaseResult {
            let raw = decode(&mut Tape::new(tape));
            run_case(&raw, ctx)
        },
        |tape| describe(&decode(&mut Tape::new(tape))),
    );
    for (k, floor) in [
        ("dangling-branch", 0.05),
        ("dangling-call", 0.03),
        ("dangling-return-to", 0.05),
        ("dangling-hint", 0.02),
        ("shared-by-target", 0.10),
        ("block-listed-in-several-subs", 0.03),
        ("duplicate-block-tid-in-sub", 0.03),
        ("duplicate-def-tid", 0.03),
        ("duplicate-jmp-tid", 0.03),
        ("call-to-noreturn-extern", 0.03),
        ("call-to-sub-without-return", 0.05),
        ("empty-sub", 0.05),
        ("recursion", 0.03),
        ("two-or-more-kinds", 0.30),
    ] {
        eng.require_fraction("raw-programs", k, floor);
    }
}
