//! Helper for C02/C04: fast observation of `IntervalDomain` values through serde.
//!
//! `dom::IParts::of` observes a value through `serde_json::to_value` (several microseconds per
//! value). The 1-byte universes of C02/C04 need 10^8 observations, so this module contains a tiny
//! non-human-readable serde `Serializer` that turns any `Serialize` value into a `Node` tree
//! (no strings, no JSON), from which the interval parts are read *by field name*.
//! It is pure observation: nothing of the repository's logic is involved except `derive(Serialize)`.
//! `observe` cross-checks itself against `IParts::of` on a deterministic sample of calls
//! (a disagreement is a harness bug => panic outside `cut` => exit 2).
//!
//! The module also holds the small pieces shared by c02.rs and c04.rs: well-formedness kinds,
//! deterministic widening-hint variants, and grids of wider intervals.

use crate::dom::IParts;
use crate::refsem::sext;
use crate::tape::{fnv, mix64};
use cwe_checker_lib::abstract_domain::IntervalDomain;
use serde::ser::{self, Serialize};
use std::cell::Cell;
use std::fmt;

#[derive(Debug, Clone, PartialEq)]
pub enum Node {
    U(u64),
    I(i64),
    B(bool),
    F,
    Unit,
    None,
    Some(Box<Node>),
    Seq(Vec<Node>),
    Map(Vec<(Node, Node)>),
    Struct(Vec<(&'static str, Node)>),
    Str(String),
    Variant(&'static str, Box<Node>),
}

#[derive(Debug)]
pub struct SerErr(String);
impl fmt::Display for SerErr {
    fn fmt(&self, f: &mut fmt::Formatter<'_>) -> fmt::Result {
        write!(f, "{}", self.0)
    }
}
impl std::error::Error for SerErr {}
impl ser::Error for SerErr {
    fn custom<T: fmt::Display>(msg: T) -> Self {
        SerErr(msg.to_string())
    }
}

pub struct NodeSer;
pub struct SeqSer {
    items: Vec<Node>,
    variant: Option<&'static str>,
}
pub struct MapSer {
    items: Vec<(Node, Node)>,
    key: Option<Node>,
}
pub struct StructSer {
    items: Vec<(&'static str, Node)>,
    variant: Option<&'static str>,
}

impl ser::Serializer for NodeSer {
    type Ok = Node;
    type Error = SerErr;
    type SerializeSeq = SeqSer;
    type SerializeTuple = SeqSer;
    type SerializeTupleStruct = SeqSer;
    type SerializeTupleVariant = SeqSer;
    type SerializeMap = MapSer;
    type SerializeStruct = StructSer;
    type SerializeStructVariant = StructSer;

    fn is_human_readable(&self) -> bool {
        false
    }
    fn serialize_bool(self, v: bool) -> Result<Node, SerErr> {
        Ok(Node::B(v))
    }
    fn serialize_i8(self, v: i8) -> Result<Node, SerErr> {
        Ok(Node::I(v as i64))
    }
    fn serialize_i16(self, v: i16) -> Result<Node, SerErr> {
        Ok(Node::I(v as i64))
    }
    fn serialize_i32(self, v: i32) -> Result<Node, SerErr> {
        Ok(Node::I(v as i64))
    }
    fn serialize_i64(self, v: i64) -> Result<Node, SerErr> {
        Ok(Node::I(v))
    }
    fn serialize_u8(self, v: u8) -> Result<Node, SerErr> {
        Ok(Node::U(v as u64))
    }
    fn serialize_u16(self, v: u16) -> Result<Node, SerErr> {
        Ok(Node::U(v as u64))
    }
    fn serialize_u32(self, v: u32) -> Result<Node, SerErr> {
        Ok(Node::U(v as u64))
    }
    fn serialize_u64(self, v: u64) -> Result<Node, SerErr> {
        Ok(Node::U(v))
    }
    fn serialize_f32(self, _v: f32) -> Result<Node, SerErr> {
        Ok(Node::F)
    }
    fn serialize_f64(self, _v: f64) -> Result<Node, SerErr> {
        Ok(Node::F)
    }
    fn serialize_char(self, v: char) -> Result<Node, SerErr> {
        Ok(Node::Str(v.to_string()))
    }
    fn serialize_str(self, v: &str) -> Result<Node, SerErr> {
        Ok(Node::Str(v.to_string()))
    }
    fn serialize_bytes(self, v: &[u8]) -> Result<Node, SerErr> {
        Ok(Node::Seq(v.iter().map(|b| Node::U(*b as u64)).collect()))
    }
    fn serialize_none(self) -> Result<Node, SerErr> {
        Ok(Node::None)
    }
    fn serialize_some<T: ?Sized + Serialize>(self, value: &T) -> Result<Node, SerErr> {
        Ok(Node::Some(Box::new(value.serialize(NodeSer)?)))
    }
    fn serialize_unit(self) -> Result<Node, SerErr> {
        Ok(Node::Unit)
    }
    fn serialize_unit_struct(self, _name: &'static str) -> Result<Node, SerErr> {
        Ok(Node::Unit)
    }
    fn serialize_unit_variant(self, _name: &'static str, _idx: u32, variant: &'static str) -> Result<Node, SerErr> {
        Ok(Node::Variant(variant, Box::new(Node::Unit)))
    }
    fn serialize_newtype_struct<T: ?Sized + Serialize>(self, _name: &'static str, value: &T) -> Result<Node, SerErr> {
        value.serialize(NodeSer)
    }
    fn serialize_newtype_variant<T: ?Sized + Serialize>(
        self,
        _name: &'static str,
        _idx: u32,
        variant: &'static str,
        value: &T,
    ) -> Result<Node, SerErr> {
        Ok(Node::Variant(variant, Box::new(value.serialize(NodeSer)?)))
    }
    fn serialize_seq(self, len: Option<usize>) -> Result<SeqSer, SerErr> {
        Ok(SeqSer { items: Vec::with_capacity(len.unwrap_or(0)), variant: None })
    }
    fn serialize_tuple(self, len: usize) -> Result<SeqSer, SerErr> {
        Ok(SeqSer { items: Vec::with_capacity(len), variant: None })
    }
    fn serialize_tuple_struct(self, _name: &'static str, len: usize) -> Result<SeqSer, SerErr> {
        Ok(SeqSer { items: Vec::with_capacity(len), variant: None })
    }
    fn serialize_tuple_variant(self, _name: &'static str, _idx: u32, variant: &'static str, len: usize) -> Result<SeqSer, SerErr> {
        Ok(SeqSer { items: Vec::with_capacity(len), variant: Some(variant) })
    }
    fn serialize_map(self, len: Option<usize>) -> Result<MapSer, SerErr> {
        Ok(MapSer { items: Vec::with_capacity(len.unwrap_or(0)), key: None })
    }
    fn serialize_struct(self, _name: &'static str, len: usize) -> Result<StructSer, SerErr> {
        Ok(StructSer { items: Vec::with_capacity(len), variant: None })
    }
    fn serialize_struct_variant(self, _name: &'static str, _idx: u32, variant: &'static str, len: usize) -> Result<StructSer, SerErr> {
        Ok(StructSer { items: Vec::with_capacity(len), variant: Some(variant) })
    }
}

impl SeqSer {
    fn finish(self) -> Node {
        match self.variant {
            Some(v) => Node::Variant(v, Box::new(Node::Seq(self.items))),
            None => Node::Seq(self.items),
        }
    }
}
impl ser::SerializeSeq for SeqSer {
    type Ok = Node;
    type Error = SerErr;
    fn serialize_element<T: ?Sized + Serialize>(&mut self, value: &T) -> Result<(), SerErr> {
        self.items.push(value.serialize(NodeSer)?);
        Ok(())
    }
    fn end(self) -> Result<Node, SerErr> {
        Ok(self.finish())
    }
}
impl ser::SerializeTuple for SeqSer {
    type Ok = Node;
    type Error = SerErr;
    fn serialize_element<T: ?Sized + Serialize>(&mut self, value: &T) -> Result<(), SerErr> {
        self.items.push(value.serialize(NodeSer)?);
        Ok(())
    }
    fn end(self) -> Result<Node, SerErr> {
        Ok(self.finish())
    }
}
impl ser::SerializeTupleStruct for SeqSer {
    type Ok = Node;
    type Error = SerErr;
    fn serialize_field<T: ?Sized + Serialize>(&mut self, value: &T) -> Result<(), SerErr> {
        self.items.push(value.serialize(NodeSer)?);
        Ok(())
    }
    fn end(self) -> Result<Node, SerErr> {
        Ok(self.finish())
    }
}
impl ser::SerializeTupleVariant for SeqSer {
    type Ok = Node;
    type Error = SerErr;
    fn serialize_field<T: ?Sized + Serialize>(&mut self, value: &T) -> Result<(), SerErr> {
        self.items.push(value.serialize(NodeSer)?);
        Ok(())
    }
    fn end(self) -> Result<Node, SerErr> {
        Ok(self.finish())
    }
}
impl ser::SerializeMap for MapSer {
    type Ok = Node;
    type Error = SerErr;
    fn serialize_key<T: ?Sized + Serialize>(&mut self, key: &T) -> Result<(), SerErr> {
        self.key = Some(key.serialize(NodeSer)?);
        Ok(())
    }
    fn serialize_value<T: ?Sized + Serialize>(&mut self, value: &T) -> Result<(), SerErr> {
        let k = self.key.take().ok_or_else(|| SerErr("value without key".into()))?;
        self.items.push((k, value.serialize(NodeSer)?));
        Ok(())
    }
    fn end(self) -> Result<Node, SerErr> {
        Ok(Node::Map(self.items))
    }
}
impl StructSer {
    fn finish(self) -> Node {
        match self.variant {
            Some(v) => Node::Variant(v, Box::new(Node::Struct(self.items))),
            None => Node::Struct(self.items),
        }
    }
}
impl ser::SerializeStruct for StructSer {
    type Ok = Node;
    type Error = SerErr;
    fn serialize_field<T: ?Sized + Serialize>(&mut self, key: &'static str, value: &T) -> Result<(), SerErr> {
        self.items.push((key, value.serialize(NodeSer)?));
        Ok(())
    }
    fn end(self) -> Result<Node, SerErr> {
        Ok(self.finish())
    }
}
impl ser::SerializeStructVariant for StructSer {
    type Ok = Node;
    type Error = SerErr;
    fn serialize_field<T: ?Sized + Serialize>(&mut self, key: &'static str, value: &T) -> Result<(), SerErr> {
        self.items.push((key, value.serialize(NodeSer)?));
        Ok(())
    }
    fn end(self) -> Result<Node, SerErr> {
        Ok(self.finish())
    }
}

impl Node {
    fn field(&self, name: &str) -> &Node {
        match self {
            Node::Struct(fs) => &fs.iter().find(|(k, _)| *k == name).unwrap_or_else(|| panic!("observer: no field {}", name)).1,
            other => panic!("observer: expected struct with field {}, got {:?}", name, other),
        }
    }
    fn u64(&self) -> u64 {
        match self {
            Node::U(v) => *v,
            other => panic!("observer: expected u64, got {:?}", other),
        }
    }
    /// apint in the non-human-readable form: (bit width, [digits, least significant first]).
    /// Returns (unsigned value, width in bytes).
    fn apint(&self) -> (u128, usize) {
        match self {
            Node::Seq(items) if items.len() == 2 => {
                let bits = items[0].u64() as usize;
                assert!(bits % 8 == 0 && bits > 0 && bits <= 128, "observer: unsupported bit width {}", bits);
                let digits = match &items[1] {
                    Node::Seq(d) => d,
                    other => panic!("observer: expected digit list, got {:?}", other),
                };
                assert!(!digits.is_empty() && digits.len() <= 2, "observer: {} digits", digits.len());
                let mut v: u128 = digits[0].u64() as u128;
                if digits.len() == 2 {
                    v |= (digits[1].u64() as u128) << 64;
                }
                let w = bits / 8;
                (v & crate::refsem::mask(w), w)
            }
            other => panic!("observer: expected apint tuple, got {:?}", other),
        }
    }
    fn opt_apint(&self) -> Option<(u128, usize)> {
        match self {
            Node::None => None,
            Node::Some(b) => Some(b.apint()),
            other => panic!("observer: expected option, got {:?}", other),
        }
    }
}

/// Observed parts of an `IntervalDomain` incl. the widths of every stored bitvector.
#[derive(Debug, Clone)]
pub struct Obs {
    /// bounds/hints sign-extended from *their own* widths; `p.w` is the width of `start`
    pub p: IParts,
    pub end_w: usize,
    pub lo_w: Option<usize>,
    pub hi_w: Option<usize>,
}

thread_local! {
    static OBS_COUNT: Cell<u64> = const { Cell::new(0) };
}

fn observe_raw(d: &IntervalDomain) -> Obs {
    let n = d.serialize(NodeSer).expect("observer: serialize");
    let iv = n.field("interval");
    let (s, sw) = iv.field("start").apint();
    let (e, ew) = iv.field("end").apint();
    let stride = iv.field("stride").u64();
    let lo = n.field("widening_lower_bound").opt_apint();
    let hi = n.field("widening_upper_bound").opt_apint();
    let delay = n.field("widening_delay").u64();
    Obs {
        p: IParts {
            start: sext(s, sw),
            end: sext(e, ew),
            stride,
            w: sw,
            lo: lo.map(|(v, w)| sext(v, w)),
            hi: hi.map(|(v, w)| sext(v, w)),
            delay,
        },
        end_w: ew,
        lo_w: lo.map(|x| x.1),
        hi_w: hi.map(|x| x.1),
    }
}

/// Observe a repository value. Every 4096th call per thread (and the first 64) is cross-checked
/// against the JSON based `IParts::of` when all widths agree (the JSON observer assumes that).
pub fn observe(d: &IntervalDomain) -> Obs {
    let o = observe_raw(d);
    let c = OBS_COUNT.with(|c| {
        let v = c.get();
        c.set(v + 1);
        v
    });
    if c < 64 || c % 4096 == 0 {
        let uniform = o.end_w == o.p.w && o.lo_w.map(|w| w == o.p.w).unwrap_or(true) && o.hi_w.map(|w| w == o.p.w).unwrap_or(true);
        if uniform {
            let j = IParts::of(d);
            assert!(j == o.p, "observer disagreement: fast {:?} vs json {:?}", o.p, j);
        }
    }
    o
}

/// Well-formedness by the type documentation; returns (kind, message) of the first broken clause.
pub fn ill_formed(p: &IParts) -> Option<(&'static str, String)> {
    if p.start > p.end {
        return Some(("start-gt-end", format!("start {} >s end {}", p.start, p.end)));
    }
    if p.start == p.end {
        if p.stride != 0 {
            return Some(("singleton-nonzero-stride", format!("start = end = {} but stride {} (documented: 0)", p.start, p.stride)));
        }
    } else {
        if p.stride == 0 {
            return Some(("zero-stride-nonsingleton", format!("start {} != end {} but stride 0", p.start, p.end)));
        }
        if ((p.end - p.start) as u128) % (p.stride as u128) != 0 {
            return Some(("end-off-stride", format!("end - start = {} is not a multiple of the stride {}", p.end - p.start, p.stride)));
        }
    }
    None
}

/// Do the widening hints of an (observed) value lie where every constructor puts them?
pub fn hints_in_position(p: &IParts) -> bool {
    p.lo.map(|l| l < p.start).unwrap_or(true) && p.hi.map(|h| h > p.end).unwrap_or(true)
}

pub const DELAYS: [u64; 7] = [0, 1, 2, 3, 255, 1 << 32, u64::MAX];

/// Deterministic widening-hint variant `k` of a value (k = 0: no hints). Hints respect the
/// constructor invariants: lower hint <s start, upper hint >s end. They may be off-stride
/// (documented: "the widening hints may not respect the stride").
pub fn hint_variant(p: &IParts, k: u64) -> IParts {
    let mut q = p.clone();
    q.lo = None;
    q.hi = None;
    q.delay = 0;
    if k == 0 {
        return q;
    }
    let h = mix64(fnv(format!("{}|{}|{}|{}", p.start, p.end, p.stride, p.w).as_bytes()) ^ k.wrapping_mul(0x9e37_79b9));
    let st = (p.stride.max(1)) as i128;
    let room_lo = p.start - p.smin();
    let room_hi = p.smax() - p.end;
    // k = 1: both sides near; k = 2: hashed mix of near / far / aligned / absent; k >= 3 other hashed mix
    let pick = |sel: u64, room: i128, r: u64| -> Option<i128> {
        if room <= 0 {
            return None;
        }
        let d = match sel % 5 {
            0 => return None,
            1 => 1 + (r % 8) as i128,
            2 => room - (r % 3) as i128,
            3 => st * (1 + (r % 3) as i128),
            _ => 1 + (r % 64) as i128,
        };
        Some(d.clamp(1, room))
    };
    let (sl, sh) = if k == 1 { (1, 1) } else { ((h >> 8) % 5, (h >> 16) % 5) };
    let (sl, sh) = if k >= 2 && sl == 0 && sh == 0 { (2, 3) } else { (sl, sh) };
    q.lo = pick(sl, room_lo, h >> 24).map(|d| p.start - d);
    q.hi = pick(sh, room_hi, h >> 32).map(|d| p.end + d);
    q.delay = match (h >> 40) % 9 {
        7 => (p.end - p.start).min(u64::MAX as i128) as u64,
        8 => ((p.end - p.start).min(u64::MAX as i128) as u64).saturating_sub(1),
        i => DELAYS[i as usize],
    };
    q
}

/// Boundary-rich grid of well-formed intervals of width `w` (2, 4 or 8 bytes):
/// endpoints from a table, strides from a table (end rounded down onto the stride).
pub fn wide_grid(w: usize, small: bool) -> Vec<IParts> {
    let bits = 8 * w as u32;
    let smin = -(1i128 << (bits - 1));
    let smax = (1i128 << (bits - 1)) - 1;
    let half = 1i128 << (bits / 2);
    let mut pts: Vec<i128> = if small {
        vec![smin, smin + 1, -half - 1, -129, -2, -1, 0, 1, 3, 128, 255, half - 1, half, smax - 1, smax]
    } else {
        vec![
            smin, smin + 1, smin + 2, smin / 2, -half - 1, -half, -1024, -129, -128, -3, -2, -1, 0, 1, 2, 3, 7, 127, 128, 255, 256, 1024,
            half - 1, half, half + 1, smax / 2, smax - 2, smax - 1, smax,
        ]
    };
    pts.retain(|p| *p >= smin && *p <= smax);
    pts.sort();
    pts.dedup();
    let mut out: Vec<IParts> = vec![];
    for (i, s) in pts.iter().enumerate() {
        out.push(IParts::singleton(*s, w));
        for e in pts.iter().skip(i + 1) {
            let d = (*e - *s) as u128;
            let mut strides: Vec<u128> = vec![1, 2, 3, 4, 8, 255, 256, half as u128, (half as u128) + 1, 1u128 << (bits - 2), (1u128 << (bits - 3)) + 1, d];
            if d % 2 == 0 {
                strides.push(d / 2);
            }
            if d % 3 == 0 {
                strides.push(d / 3);
            }
            if w == 8 {
                strides.push((1u128 << 63) + 1);
                strides.push(u64::MAX as u128);
                strides.push(1u128 << 63);
            }
            if small {
                strides.retain(|s| [1u128, 2, 3, 8, 256, half as u128 + 1, d].contains(s) || *s == (1u128 << 63));
            }
            for st in strides {
                if st == 0 || st > d || st > u64::MAX as u128 {
                    continue;
                }
                let e2 = *s + ((d / st) * st) as i128;
                if e2 == *s {
                    continue;
                }
                out.push(IParts::new(*s, e2, st as u64, w));
            }
        }
    }
    out.sort_by(|a, b| (a.start, a.end, a.stride).cmp(&(b.start, b.end, b.stride)));
    out.dedup();
    out
}

/// Largest member <=s x, if any (own arithmetic, from the documented value set).
pub fn floor_member(p: &IParts, x: i128) -> Option<i128> {
    if x < p.start {
        return None;
    }
    if x >= p.end {
        return Some(p.end);
    }
    if p.stride == 0 {
        return Some(p.start);
    }
    let k = ((x - p.start) as u128) / (p.stride as u128);
    Some(p.start + (k * p.stride as u128) as i128)
}

/// Smallest member >=s x, if any.
pub fn ceil_member(p: &IParts, x: i128) -> Option<i128> {
    if x > p.end {
        return None;
    }
    if x <= p.start {
        return Some(p.start);
    }
    if p.stride == 0 {
        return None; // singleton start < x <= end = start is impossible
    }
    let d = (x - p.start) as u128;
    let st = p.stride as u128;
    let k = (d + st - 1) / st;
    let c = p.start + (k * st) as i128;
    if c <= p.end {
        Some(c)
    } else {
        None
    }
}

/// Tier-independent layout of the 1-byte universe with hint variants: the item indices used by
/// the quick tier are a prefix of those of the thorough tier, so that enumeration replay files
/// mean the same case in both tiers.
/// Q = a pseudo-random fifth of the intervals with stride <= 8, R = the other intervals with
/// stride <= 8, L = the intervals with stride > 8. Block order (interval set, hint variant):
/// (Q,0) (Q,1) (R,0) (R,1) (Q,2) (R,2) (L,0) (L,1) (L,2).
pub struct U1Layout {
    pub q: Vec<IParts>,
    pub r: Vec<IParts>,
    pub l: Vec<IParts>,
}

impl Default for U1Layout {
    fn default() -> Self {
        Self::new()
    }
}

impl U1Layout {
    pub fn new() -> U1Layout {
        let all = crate::dom::universe_1byte(255);
        let (mut small, l): (Vec<IParts>, Vec<IParts>) = all.into_iter().partition(|p| p.stride <= 8);
        small.sort_by_key(|p| mix64(((p.start as i64 as u64) << 32) ^ ((p.end as i64 as u64) << 16) ^ p.stride));
        let nq = small.len() / 5;
        let r = small.split_off(nq);
        U1Layout { q: small, r, l }
    }
    fn blocks(&self) -> [(&Vec<IParts>, u64); 9] {
        [(&self.q, 0), (&self.q, 1), (&self.r, 0), (&self.r, 1), (&self.q, 2), (&self.r, 2), (&self.l, 0), (&self.l, 1), (&self.l, 2)]
    }
    /// number of items in the first `nblocks` blocks
    pub fn items(&self, nblocks: usize) -> u64 {
        self.blocks().iter().take(nblocks).map(|b| b.0.len() as u64).sum()
    }
    /// (base value, hint variant) of item j
    pub fn item(&self, j: u64) -> (&IParts, u64) {
        let mut j = j;
        for (v, k) in self.blocks() {
            if j < v.len() as u64 {
                return (&v[j as usize], k);
            }
            j -= v.len() as u64;
        }
        panic!("U1Layout: item index out of range");
    }
    pub fn value(&self, j: u64) -> IParts {
        let (p, k) = self.item(j);
        hint_variant(p, k)
    }
}
