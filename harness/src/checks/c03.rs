//! C03 — merging abstract values over-approximates both inputs and is stable.
//!
//! For every kind of abstract value the harness has its OWN reading of the represented set
//! (`Sem::g` = canonical description of γ, `Sem::not_incl` = witness of a member of γ(a) missing
//! in γ(m)), written from the type documentation; values are observed through public getters /
//! serde only.  With `m = a.merge(b)` the oracle asserts
//!   (1) γ(a) ⊆ γ(m) and γ(b) ⊆ γ(m),
//!   (2) γ(a.merge(a)) = γ(a) (also through `merge_with`),
//!   (3) γ(m.merge(x)) = γ(m) = γ(x.merge(m)) for x ∈ {a, b, m}  ("merging with something already
//!       absorbed does not enlarge the set"; both orders because `fixpoint.rs` calls merge(new, old)),
//!   (4) `merge_with` leaves the same set as `merge`.
//! γ-equality ignores widening hints and the widening delay.

use crate::conv::{bs, bv, to_v};
use crate::dom::{self, IParts};
use crate::engine::{cut, CaseResult, Ctx, Engine, Failure, RandomSpec};
use crate::refsem::{sext, val};
use crate::tape::{fnv, Tape};
use apint::Width as _;
use cwe_checker_lib::abstract_domain::{
    AbstractDomain, AbstractIdentifier, AbstractLocation, BitvectorDomain, DataDomain, DomainMap, HasTop, IntersectMergeStrategy, IntervalDomain,
    MapMergeStrategy, MemRegion, MergeTopStrategy, RegisterDomain, SizedDomain, TryToInterval, UnionMergeStrategy,
};
use cwe_checker_lib::analysis::taint::Taint;
use cwe_checker_lib::intermediate_representation::{Bitvector, Tid};
use std::collections::{BTreeMap, BTreeSet};
use std::fmt::Debug;
use std::sync::OnceLock;

// =============================================================================================
// The harness' own concretizations

/// Own description of the represented set of a value.
pub trait Sem: AbstractDomain + Debug {
    type G: Clone + Eq + Debug;
    fn kind() -> String;
    /// Observe the value (getters / serde only) and describe its represented set canonically:
    /// two values represent the same set iff their descriptions are equal.
    fn g(&self) -> Self::G;
    /// A witness (text) of a member of γ(a) that is not a member of γ(m); `None` iff γ(a) ⊆ γ(m).
    fn not_incl(a: &Self::G, m: &Self::G) -> Option<String>;
    /// Rendering for failure reports and replay files.
    fn show(&self) -> String {
        format!("{:?}", self)
    }
}

/// Values that can be stored in `DataDomain`s, maps and memory regions.
pub trait Val: Sem + SizedDomain + HasTop {
    fn gen(t: &mut Tape, w: usize) -> Self;
    fn near(t: &mut Tape, a: &Self, w: usize) -> Self;
    /// description of `Self::new_top(w)` as documented
    fn top_g(w: usize) -> Self::G;
    fn width_g(g: &Self::G) -> usize;
    /// the value is the documented `Top` element
    fn is_top_g(g: &Self::G) -> bool {
        *g == Self::top_g(Self::width_g(g))
    }
    /// the value represents every value of its width (same set as an absent key under `IntersectMergeStrategy`)
    fn is_all(g: &Self::G) -> bool;
    /// the value does not constrain the concrete value at all (memory regions: "nothing is known")
    fn is_unconstrained(g: &Self::G) -> bool;
    fn is_empty_g(g: &Self::G) -> bool;
}

// ---------------------------------------------------------------------------------------------
// IntervalDomain: {start + k*stride | start <=s start + k*stride <=s end}, hints/delay are not part of the set.

#[derive(Clone, Debug, PartialEq, Eq, Hash)]
pub struct IG {
    pub w: usize,
    pub empty: bool,
    pub start: i128,
    pub end: i128,
    pub stride: u64,
}

impl IG {
    fn canon(w: usize, start: i128, end: i128, stride: u64) -> IG {
        if start > end {
            return IG { w, empty: true, start: 0, end: 0, stride: 0 };
        }
        if stride == 0 || start == end {
            return IG { w, empty: false, start, end: start, stride: 0 };
        }
        let n = ((end - start) as u128) / stride as u128;
        let e = start + (n * stride as u128) as i128;
        if e == start {
            IG { w, empty: false, start, end: start, stride: 0 }
        } else {
            IG { w, empty: false, start, end: e, stride }
        }
    }
    fn of_parts(p: &IParts) -> IG {
        IG::canon(p.w, p.start, p.end, p.stride)
    }
    fn parts(&self) -> IParts {
        IParts::new(self.start, self.end, self.stride, self.w)
    }
    fn top(w: usize) -> IG {
        IG::of_parts(&IParts::top(w))
    }
    fn is_top(&self) -> bool {
        !self.empty && self.parts().is_top()
    }
}

fn bv_signed(b: &Bitvector) -> (i128, usize) {
    let bits = b.width().to_usize();
    if bits <= 64 {
        let w = bits / 8;
        let u = b.try_to_u64().expect("width <= 64") as u128 & crate::refsem::mask(w);
        (sext(u, w), w)
    } else {
        let v = to_v(b);
        (sext(v.v, v.w), v.w)
    }
}

thread_local! {
    static OBS_MEMO: std::cell::RefCell<std::collections::HashMap<IntervalDomain, IG>> = std::cell::RefCell::new(std::collections::HashMap::new());
}

fn ref_tops() -> &'static Vec<IntervalDomain> {
    static TOPS: OnceLock<Vec<IntervalDomain>> = OnceLock::new();
    TOPS.get_or_init(|| (0..=16usize).map(|w| IParts::top(w.max(1)).build()).collect())
}

/// Observation of an interval value: public getter for non-Top values; values structurally equal
/// to a harness-built Top (serde-constructed reference) are Top; serde otherwise.
fn obs_iv(d: &IntervalDomain) -> IG {
    // (`try_to_interval` builds an `anyhow` error for Top values, which captures a backtrace when
    // RUST_BACKTRACE is set; `is_top` is only used to choose the observation path)
    let r = if d.is_top() { None } else { d.try_to_interval().ok() };
    match r {
        Some(i) => {
            let (s, w) = bv_signed(&i.start);
            let (e, _) = bv_signed(&i.end);
            IG::canon(w, s, e, i.stride)
        }
        None => {
            let w = u64::from(d.bytesize()) as usize;
            if w <= 16 && ref_tops()[w] == *d {
                IG::top(w)
            } else {
                // serde observation, memoised per thread on the (structurally hashed) value itself
                OBS_MEMO.with(|m| {
                    let mut m = m.borrow_mut();
                    if let Some(g) = m.get(d) {
                        return g.clone();
                    }
                    let g = IG::of_parts(&IParts::of(d));
                    if m.len() >= 4096 {
                        m.clear();
                    }
                    m.insert(d.clone(), g.clone());
                    g
                })
            }
        }
    }
}

fn gcd(mut a: u128, mut b: u128) -> u128 {
    while b != 0 {
        let r = a % b;
        a = b;
        b = r;
    }
    a
}

fn ig_not_incl(a: &IG, m: &IG) -> Option<String> {
    if a.w != m.w {
        return Some(format!("byte size {} vs {}", a.w, m.w));
    }
    if a.empty {
        return None;
    }
    if m.empty {
        return Some(format!("{}", a.start));
    }
    let (pa, pm) = (a.parts(), m.parts());
    // members: all of them if there are few, otherwise endpoints, neighbours and pseudo-random ones
    for c in pa.members(300, 0xc03) {
        if !pm.member(c) {
            return Some(format!("{}", c));
        }
    }
    // structural test (complete for well-formed descriptions): endpoints inside and stride compatible
    if a.stride != 0 && (m.stride == 0 || a.stride % m.stride != 0) {
        // some member of a is off m's residue class
        let c = a.start + a.stride as i128;
        if !pm.member(c) {
            return Some(format!("{}", c));
        }
        if !pm.member(a.start) {
            return Some(format!("{}", a.start));
        }
        // (cannot happen for canonical descriptions, kept for totality)
        return Some(format!("stride {} not a multiple of {}", a.stride, m.stride));
    }
    None
}

impl Sem for IntervalDomain {
    type G = IG;
    fn kind() -> String {
        "interval".into()
    }
    fn g(&self) -> IG {
        obs_iv(self)
    }
    fn not_incl(a: &IG, m: &IG) -> Option<String> {
        ig_not_incl(a, m)
    }
    fn show(&self) -> String {
        format!("{:?}", IParts::of(self))
    }
}

/// A value close to `a`: the typical fixpoint situation (same interval grown by a few strides).
pub fn iv_near(t: &mut Tape, a: &IParts) -> IParts {
    let mut p = a.clone();
    let (smin, smax) = (p.smin(), p.smax());
    let st: i128 = if p.stride == 0 { *t.choose(&[1i128, 2, 4, 3, 8]) } else { p.stride as i128 };
    let k = 1 + t.below(3) as i128;
    let (mut s, mut e) = (p.start, p.end);
    match t.below(6) {
        0 => {}
        1 => {
            if e + k * st <= smax {
                e += k * st;
            }
        }
        2 => {
            if s - k * st >= smin {
                s -= k * st;
            }
        }
        3 => {
            if e + k * st <= smax {
                e += k * st;
            }
            if s - st >= smin {
                s -= st;
            }
        }
        4 => {
            if e + k * st <= smax {
                s += k * st;
                e += k * st;
            }
        }
        _ => {
            if e - st >= s {
                e -= st;
            }
        }
    }
    p.start = s;
    p.end = e;
    p.stride = if s == e { 0 } else { st as u64 };
    match t.below(4) {
        1 => {
            p.lo = None;
            p.hi = None;
        }
        2 => {
            if p.start > smin {
                p.lo = Some((p.start - 1 - t.below(8) as i128).max(smin));
            }
            if p.end < smax {
                p.hi = Some((p.end + 1 + t.below(8) as i128).min(smax));
            }
        }
        _ => {}
    }
    if let Some(l) = p.lo {
        if l >= p.start {
            p.lo = None;
        }
    }
    if let Some(h) = p.hi {
        if h <= p.end {
            p.hi = None;
        }
    }
    if t.prob(64) {
        p.delay = *t.choose(&[0u64, 1, 2, 8, 255, u64::MAX]);
    }
    p
}

impl Val for IntervalDomain {
    fn gen(t: &mut Tape, w: usize) -> Self {
        dom::decode_interval(t, w, true).build()
    }
    fn near(t: &mut Tape, a: &Self, _w: usize) -> Self {
        iv_near(t, &IParts::of(a)).build()
    }
    fn top_g(w: usize) -> IG {
        IG::top(w)
    }
    fn width_g(g: &IG) -> usize {
        g.w
    }
    fn is_unconstrained(g: &IG) -> bool {
        g.is_top()
    }
    fn is_all(g: &IG) -> bool {
        g.is_top()
    }
    fn is_empty_g(g: &IG) -> bool {
        g.empty
    }
}

// ---------------------------------------------------------------------------------------------
// BitvectorDomain: Value(v) = {v}, Top(w) = all values of w bytes.

#[derive(Clone, Debug, PartialEq, Eq, Hash)]
pub enum BG {
    Top(usize),
    Val(u128, usize),
}

impl Sem for BitvectorDomain {
    type G = BG;
    fn kind() -> String {
        "bitvector".into()
    }
    fn g(&self) -> BG {
        match self {
            BitvectorDomain::Top(w) => BG::Top(u64::from(*w) as usize),
            BitvectorDomain::Value(b) => {
                let v = to_v(b);
                BG::Val(v.v, v.w)
            }
        }
    }
    fn not_incl(a: &BG, m: &BG) -> Option<String> {
        match (a, m) {
            (BG::Val(x, wa), BG::Val(y, wm)) if wa == wm => {
                if x == y {
                    None
                } else {
                    Some(format!("{:#x}", x))
                }
            }
            (BG::Val(_, wa), BG::Top(wm)) | (BG::Top(wa), BG::Top(wm)) if wa == wm => None,
            (BG::Top(wa), BG::Val(y, wm)) if wa == wm => Some(format!("{:#x}", (y + 1) & crate::refsem::mask(*wm))),
            _ => Some("byte size differs".into()),
        }
    }
}

impl Val for BitvectorDomain {
    fn gen(t: &mut Tape, w: usize) -> Self {
        if t.prob(40) {
            BitvectorDomain::Top(bs(w))
        } else {
            BitvectorDomain::Value(bv(val(t.int(w), w)))
        }
    }
    fn near(t: &mut Tape, a: &Self, w: usize) -> Self {
        if t.flag() {
            Self::gen(t, w)
        } else {
            a.clone()
        }
    }
    fn top_g(w: usize) -> BG {
        BG::Top(w)
    }
    fn width_g(g: &BG) -> usize {
        match g {
            BG::Top(w) | BG::Val(_, w) => *w,
        }
    }
    fn is_unconstrained(g: &BG) -> bool {
        matches!(g, BG::Top(_))
    }
    fn is_all(g: &BG) -> bool {
        matches!(g, BG::Top(_))
    }
    fn is_empty_g(_g: &BG) -> bool {
        false
    }
}

// ---------------------------------------------------------------------------------------------
// Taint ("may" analysis): Top = {untainted}, Tainted = {tainted, untainted}.

#[derive(Clone, Debug, PartialEq, Eq, Hash)]
pub struct TG {
    may_be_tainted: bool,
    w: usize,
}

impl Sem for Taint {
    type G = TG;
    fn kind() -> String {
        "taint".into()
    }
    fn g(&self) -> TG {
        match self {
            Taint::Tainted(w) => TG { may_be_tainted: true, w: u64::from(*w) as usize },
            Taint::Top(w) => TG { may_be_tainted: false, w: u64::from(*w) as usize },
        }
    }
    fn not_incl(a: &TG, m: &TG) -> Option<String> {
        if a.w != m.w {
            Some("byte size differs".into())
        } else if a.may_be_tainted && !m.may_be_tainted {
            Some("tainted".into())
        } else {
            None
        }
    }
}

// ---------------------------------------------------------------------------------------------
// DataDomain<T>: set of tagged values Abs(v) | Rel(id, offset) | TopVal ("value of fully unknown origin").

#[derive(Clone, Debug, PartialEq, Eq)]
pub struct DG<TG: Clone + Eq + Debug> {
    w: usize,
    rel: BTreeMap<AbstractIdentifier, TG>,
    abs: Option<TG>,
    top: bool,
}

fn id_name(id: &AbstractIdentifier) -> String {
    format!("{}", id)
}

impl<T: Val + RegisterDomain> Sem for DataDomain<T> {
    type G = DG<T::G>;
    fn kind() -> String {
        format!("data<{}>", T::kind())
    }
    fn g(&self) -> Self::G {
        DG {
            w: u64::from(self.bytesize()) as usize,
            rel: self.get_relative_values().iter().map(|(k, v)| (k.clone(), v.g())).collect(),
            abs: self.get_absolute_value().map(|v| v.g()),
            top: self.contains_top(),
        }
    }
    fn not_incl(a: &Self::G, m: &Self::G) -> Option<String> {
        if a.w != m.w {
            return Some(format!("byte size {} vs {}", a.w, m.w));
        }
        for (id, x) in a.rel.iter() {
            if T::is_empty_g(x) {
                continue;
            }
            match m.rel.get(id) {
                None => return Some(format!("Rel({}, any offset of {:?})", id_name(id), x)),
                Some(y) => {
                    if let Some(w) = T::not_incl(x, y) {
                        return Some(format!("Rel({}, {})", id_name(id), w));
                    }
                }
            }
        }
        if let Some(x) = &a.abs {
            if !T::is_empty_g(x) {
                match &m.abs {
                    None => return Some(format!("Abs(any value of {:?})", x)),
                    Some(y) => {
                        if let Some(w) = T::not_incl(x, y) {
                            return Some(format!("Abs({})", w));
                        }
                    }
                }
            }
        }
        if a.top && !m.top {
            return Some("TopVal (value of unknown origin)".into());
        }
        None
    }
}

fn id_pool() -> &'static Vec<AbstractIdentifier> {
    static POOL: OnceLock<Vec<AbstractIdentifier>> = OnceLock::new();
    POOL.get_or_init(|| {
        ["RAX", "RBX", "RCX", "RSP"]
            .iter()
            .enumerate()
            .map(|(i, n)| AbstractIdentifier::new(Tid::new(format!("t{}", i)), AbstractLocation::Register(crate::irb::var(n, 8))))
            .collect()
    })
}

impl<T: Val + RegisterDomain> Val for DataDomain<T> {
    fn gen(t: &mut Tape, w: usize) -> Self {
        let mut d = DataDomain::new_empty(bs(w));
        let n = t.below(4);
        let mut rel = BTreeMap::new();
        for _ in 0..n {
            let id = id_pool()[t.below(4)].clone();
            rel.insert(id, T::gen(t, w));
        }
        d.set_relative_values(rel);
        if t.flag() {
            d.set_absolute_value(Some(T::gen(t, w)));
        }
        if t.prob(64) {
            d.set_contains_top_flag();
        }
        d
    }
    fn near(t: &mut Tape, a: &Self, w: usize) -> Self {
        let mut d = DataDomain::new_empty(bs(w));
        let mut rel = BTreeMap::new();
        for (id, off) in a.get_relative_values().iter() {
            match t.below(4) {
                0 | 1 => {
                    rel.insert(id.clone(), off.clone());
                }
                2 => {
                    rel.insert(id.clone(), T::near(t, off, w));
                }
                _ => {}
            }
        }
        if t.prob(80) {
            rel.insert(id_pool()[t.below(4)].clone(), T::gen(t, w));
        }
        d.set_relative_values(rel);
        match (a.get_absolute_value(), t.below(4)) {
            (Some(v), 0) | (Some(v), 1) => d.set_absolute_value(Some(v.clone())),
            (Some(v), 2) => d.set_absolute_value(Some(T::near(t, v, w))),
            (None, 2) => d.set_absolute_value(Some(T::gen(t, w))),
            _ => {}
        }
        if a.contains_top() != t.prob(50) {
            d.set_contains_top_flag();
        }
        d
    }
    fn top_g(w: usize) -> Self::G {
        DG { w, rel: BTreeMap::new(), abs: None, top: true }
    }
    fn width_g(g: &Self::G) -> usize {
        g.w
    }
    fn is_unconstrained(g: &Self::G) -> bool {
        // "values of fully unknown origin and offset": concretely any value
        g.top
    }
    fn is_all(_g: &Self::G) -> bool {
        // a set of tagged values never contains the relative values of every identifier: `Top` of a
        // DataDomain is documented as not maximal
        false
    }
    fn is_empty_g(g: &Self::G) -> bool {
        !g.top && g.abs.as_ref().map(|x| T::is_empty_g(x)).unwrap_or(true) && g.rel.values().all(|x| T::is_empty_g(x))
    }
}

// ---------------------------------------------------------------------------------------------
// DomainMap<u8, V, S>: per key, an absent key means ⊥ (Union), every value (Intersect), V::top() (MergeTop).

#[derive(Clone, Copy, Debug, PartialEq, Eq)]
enum Absent {
    Bottom,
    Everything,
    TopDefault,
}

fn map_g<V: Val>(m: &BTreeMap<u8, V>, mode: Absent) -> BTreeMap<u8, V::G> {
    m.iter()
        .map(|(k, v)| (*k, v.g()))
        .filter(|(_, g)| match mode {
            Absent::Bottom => !V::is_empty_g(g),
            Absent::Everything => !V::is_all(g),
            Absent::TopDefault => !V::is_top_g(g),
        })
        .collect()
}

fn map_not_incl<V: Val>(a: &BTreeMap<u8, V::G>, m: &BTreeMap<u8, V::G>, mode: Absent) -> Option<String> {
    let keys: BTreeSet<u8> = a.keys().chain(m.keys()).copied().collect();
    for k in keys {
        let w = match (a.get(&k), m.get(&k)) {
            (Some(x), Some(y)) => V::not_incl(x, y),
            (Some(x), None) => match mode {
                Absent::Bottom => Some(format!("any member of {:?} (key absent = no value)", x)),
                Absent::Everything => None,
                Absent::TopDefault => V::not_incl(x, &V::top_g(V::width_g(x))),
            },
            (None, Some(y)) => match mode {
                Absent::Bottom => None,
                Absent::Everything => Some(format!("a value outside {:?} (key absent = every value)", y)),
                Absent::TopDefault => V::not_incl(&V::top_g(V::width_g(y)), y),
            },
            (None, None) => None,
        };
        if let Some(w) = w {
            return Some(format!("key {}: {}", k, w));
        }
    }
    None
}

macro_rules! impl_map_sem {
    ($strategy:ty, $mode:expr, $name:expr) => {
        impl<V: Val> Sem for DomainMap<u8, V, $strategy> {
            type G = BTreeMap<u8, V::G>;
            fn kind() -> String {
                format!("map-{}<{}>", $name, V::kind())
            }
            fn g(&self) -> Self::G {
                map_g::<V>(self, $mode)
            }
            fn not_incl(a: &Self::G, m: &Self::G) -> Option<String> {
                map_not_incl::<V>(a, m, $mode)
            }
        }
    };
}
impl_map_sem!(UnionMergeStrategy, Absent::Bottom, "union");
impl_map_sem!(IntersectMergeStrategy, Absent::Everything, "intersect");
impl_map_sem!(MergeTopStrategy, Absent::TopDefault, "mergetop");

// ---------------------------------------------------------------------------------------------
// MemRegion<V>: a concrete memory satisfies the region iff for every stored cell (offset, size) the
// concrete value read there is represented by the cell's value; nothing is known elsewhere.
// Cells whose value does not constrain anything are equivalent to absent cells.

#[derive(Clone, Debug, PartialEq, Eq)]
pub struct RG<VG: Clone + Eq + Debug> {
    addr_bytes: u64,
    cells: BTreeMap<(i64, usize), VG>,
}

fn region_raw<V: Val + Debug>(r: &MemRegion<V>) -> BTreeMap<(i64, usize), V::G> {
    r.iter()
        .map(|(off, v)| {
            let g = v.g();
            ((*off, V::width_g(&g)), g)
        })
        .collect()
}

impl<V: Val + Debug> Sem for MemRegion<V> {
    type G = RG<V::G>;
    fn kind() -> String {
        format!("region<{}>", V::kind())
    }
    fn g(&self) -> Self::G {
        RG { addr_bytes: u64::from(self.get_address_bytesize()), cells: region_raw(self).into_iter().filter(|(_, g)| !V::is_unconstrained(g)).collect() }
    }
    fn not_incl(a: &Self::G, m: &Self::G) -> Option<String> {
        if a.addr_bytes != m.addr_bytes {
            return Some("address size differs".into());
        }
        for (c, y) in m.cells.iter() {
            match a.cells.get(c) {
                Some(x) => {
                    if let Some(w) = V::not_incl(x, y) {
                        return Some(format!("memory with {} in cell (offset {}, size {})", w, c.0, c.1));
                    }
                }
                None => return Some(format!("memory with a value outside {:?} in cell (offset {}, size {}) which the input does not constrain", y, c.0, c.1)),
            }
        }
        None
    }
}

// =============================================================================================
// The oracle

pub struct PairOut<T: Sem> {
    pub m: T,
    pub ga: T::G,
    pub gb: T::G,
    pub gm: T::G,
    /// number of sub-checks evaluated for the pair (callers add them to the statistics)
    pub evals: u64,
}

fn how<T: Sem>(r: &T::G, gm: &T::G) -> String {
    match (T::not_incl(r, gm), T::not_incl(gm, r)) {
        (Some(w), _) => format!("the set grew, e.g. by {}", w),
        (None, Some(w)) => format!("the set lost {}", w),
        (None, None) => "descriptions differ".into(),
    }
}

macro_rules! cutv {
    ($ctx:expr, $e:expr) => {
        match $ctx.cut(|| $e)? {
            Some(v) => v,
            None => return Ok(None),
        }
    };
}

/// Clauses (1)-(4) for the ordered pair (a, b).
pub fn check_pair<T: Sem>(a: &T, b: &T, self_check: bool, ctx: &mut Ctx) -> Result<Option<PairOut<T>>, Failure> {
    let k = T::kind();
    let m = cutv!(ctx, a.merge(b));
    let ga = cutv!(ctx, a.g());
    let gb = cutv!(ctx, b.g());
    let gm = cutv!(ctx, m.g());
    let mut evals = 2u64;
    // (1)
    if let Some(w) = T::not_incl(&ga, &gm) {
        ctx.report(format!("C03:{}:merge-misses-member-of-self", k), format!("a.merge(b) does not represent {} which a represents\n a = {}\n b = {}\n m = {}", w, a.show(), b.show(), m.show()))?;
    }
    if let Some(w) = T::not_incl(&gb, &gm) {
        ctx.report(format!("C03:{}:merge-misses-member-of-other", k), format!("a.merge(b) does not represent {} which b represents\n a = {}\n b = {}\n m = {}", w, a.show(), b.show(), m.show()))?;
    }
    // (2)
    if self_check {
        let aa = cutv!(ctx, a.merge(a));
        let gaa = cutv!(ctx, aa.g());
        if gaa != ga {
            ctx.report(format!("C03:{}:self-merge-changes-set", k), format!("a.merge(a): {}\n a = {}\n a.merge(a) = {}", how::<T>(&gaa, &ga), a.show(), aa.show()))?;
        }
        let mut a2 = a.clone();
        cutv!(ctx, {
            a2.merge_with(a);
        });
        let ga2 = cutv!(ctx, a2.g());
        if ga2 != ga {
            ctx.report(format!("C03:{}:self-merge_with-changes-set", k), format!("a.merge_with(a): {}\n a = {}\n result = {}", how::<T>(&ga2, &ga), a.show(), a2.show()))?;
        }
        evals += 2;
    }
    // (3)
    for (x, name) in [(a, "self"), (b, "other"), (&m, "itself")] {
        let r = cutv!(ctx, m.merge(x));
        let gr = cutv!(ctx, r.g());
        if gr != gm {
            ctx.report(
                format!("C03:{}:absorbed-merge-changes-set:merged-with-{}", k, name),
                format!("m = a.merge(b); m.merge({}): {}\n a = {}\n b = {}\n m = {}\n result = {}", name, how::<T>(&gr, &gm), a.show(), b.show(), m.show(), r.show()),
            )?;
        }
        let r = cutv!(ctx, x.merge(&m));
        let gr = cutv!(ctx, r.g());
        if gr != gm {
            ctx.report(
                format!("C03:{}:absorbed-merge-changes-set:{}-with-merged", k, name),
                format!("m = a.merge(b); {}.merge(m): {}\n a = {}\n b = {}\n m = {}\n result = {}", name, how::<T>(&gr, &gm), a.show(), b.show(), m.show(), r.show()),
            )?;
        }
        evals += 2;
    }
    // (4)
    let mut a2 = a.clone();
    cutv!(ctx, {
        a2.merge_with(b);
    });
    let ga2 = cutv!(ctx, a2.g());
    if ga2 != gm {
        ctx.report(format!("C03:{}:merge_with-differs-from-merge", k), format!("a.merge_with(b): {} compared with a.merge(b)\n a = {}\n b = {}\n merge = {}\n merge_with = {}", how::<T>(&ga2, &gm), a.show(), b.show(), m.show(), a2.show()))?;
    }
    evals += 1;
    Ok(Some(PairOut { m, ga, gb, gm, evals }))
}

// =============================================================================================
// Interval specifics: labelling of the widening branches (own join, observation of the result)

fn own_join(a: &IG, b: &IG) -> IG {
    let start = a.start.min(b.start);
    let end = a.end.max(b.end);
    let d = (a.start - b.start).unsigned_abs();
    let stride = gcd(gcd(a.stride as u128, b.stride as u128), d);
    IG::canon(a.w, start, end, stride as u64)
}

fn label_interval(out: &PairOut<IntervalDomain>, ctx: &mut Ctx) {
    let (ga, gb, gm) = (&out.ga, &out.gb, &out.gm);
    if ga.empty || gb.empty || gm.empty {
        return;
    }
    let j = own_join(ga, gb);
    if *gm == j {
        if j == *ga || j == *gb {
            ctx.label("kept:join-equals-an-input");
        } else {
            ctx.label("kept:below-widening-threshold");
        }
    } else if gm.is_top() {
        ctx.label("widened:to-top");
    } else {
        ctx.label("widened:to-hint");
        match (gm.start < j.start, gm.end > j.end) {
            (true, true) => ctx.label("widened:to-hint:both-sides"),
            (true, false) => ctx.label("widened:to-hint:lower"),
            (false, true) => ctx.label("widened:to-hint:upper"),
            _ => ctx.label("widened:other-shape"),
        }
    }
    if j.stride > 1 {
        ctx.label("join-stride>1");
    }
}

/// Reduced 1-byte universe times hint/delay variants (hints only where a constructor can put them).
fn iv_universe(full_variants: bool) -> Vec<IParts> {
    let mut out: Vec<IParts> = vec![];
    let mut seen = std::collections::HashSet::new();
    for p in dom::reduced_universe_1byte() {
        let lo = |d: i128| if p.start - d >= -128 { Some(p.start - d) } else { None };
        let hi = |d: i128| if p.end + d <= 127 { Some(p.end + d) } else { None };
        let lo_far = if p.start > -128 { Some(-128) } else { None };
        let hi_far = if p.end < 127 { Some(127) } else { None };
        let mut vs: Vec<(Option<i128>, Option<i128>, u64)> = vec![(None, None, 0), (lo(1), None, 0), (None, hi(1), 0), (lo_far, hi_far, 0), (lo(3), hi(3), 1), (None, None, 255)];
        if full_variants {
            vs.push((lo(1), hi(1), 4));
            vs.push((lo(2), hi_far, 0));
            vs.push((None, None, 2));
        }
        for (l, h, d) in vs {
            let mut q = p.clone();
            q.lo = l;
            q.hi = h;
            q.delay = d;
            if seen.insert(q.clone()) {
                out.push(q);
            }
        }
    }
    out
}

// =============================================================================================
// Generators for containers

type Map<V, S> = DomainMap<u8, V, S>;

fn derive_map<V: Val>(t: &mut Tape, a: &BTreeMap<u8, V>, w: usize) -> BTreeMap<u8, V> {
    let mut b = BTreeMap::new();
    let mode = t.below(4);
    let related = mode != 0;
    if mode == 2 {
        // same key set, values equal or close
        for (k, v) in a.iter() {
            b.insert(*k, if t.flag() { V::near(t, v, w) } else { v.clone() });
        }
        return b;
    }
    for k in 0..5u8 {
        match (a.get(&k), t.below(4)) {
            (Some(v), 1) if related => {
                b.insert(k, v.clone());
            }
            (Some(v), 2) if related => {
                b.insert(k, V::near(t, v, w));
            }
            (_, 0) => {}
            (Some(_), _) if related => {}
            (_, 3) => {}
            _ => {
                b.insert(k, V::gen(t, w));
            }
        }
    }
    b
}

fn gen_map_triple<V: Val>(t: &mut Tape) -> (BTreeMap<u8, V>, BTreeMap<u8, V>, BTreeMap<u8, V>) {
    let w = *t.choose(&[4usize, 8, 1, 2]);
    let mut a = BTreeMap::new();
    for k in 0..5u8 {
        if t.below(3) != 0 {
            a.insert(k, V::gen(t, w));
        }
    }
    let b = derive_map(t, &a, w);
    let c = derive_map(t, &b, w);
    (a, b, c)
}

fn key_relation<V>(a: &BTreeMap<u8, V>, b: &BTreeMap<u8, V>) -> &'static str {
    let ka: BTreeSet<u8> = a.keys().copied().collect();
    let kb: BTreeSet<u8> = b.keys().copied().collect();
    let common = ka.intersection(&kb).count();
    if ka == kb {
        if ka.is_empty() {
            "keys:both-empty"
        } else {
            "keys:equal"
        }
    } else if common == 0 {
        "keys:disjoint"
    } else if common == ka.len() || common == kb.len() {
        "keys:one-contains-other"
    } else {
        "keys:partial-overlap"
    }
}

#[derive(Clone, Debug)]
struct CellSpec<V> {
    off: i64,
    val: V,
}

const CELL_SIZES: [usize; 4] = [4, 8, 1, 2];

fn derive_cells<V: Val + Debug>(t: &mut Tape, a: &[CellSpec<V>]) -> Vec<CellSpec<V>> {
    let mut b = vec![];
    for c in a.iter() {
        let w = u64::from(c.val.bytesize()) as usize;
        match t.below(8) {
            0 | 1 => b.push(c.clone()),
            2 | 3 => b.push(CellSpec { off: c.off, val: V::near(t, &c.val, w) }),
            4 => {
                // partial overlap
                let d = 1 + t.below(w.max(2) - 1) as i64;
                b.push(CellSpec { off: c.off + if t.flag() { d } else { -d }, val: V::gen(t, w) });
            }
            5 => {
                // same position, other size
                let w2 = *t.choose(&CELL_SIZES);
                b.push(CellSpec { off: c.off, val: V::gen(t, w2) });
            }
            _ => {}
        }
    }
    let extra = t.below(3);
    for _ in 0..extra {
        let off = t.range(-16, 16);
        let w = *t.choose(&CELL_SIZES);
        b.push(CellSpec { off, val: V::gen(t, w) });
    }
    b
}

fn gen_region_triple<V: Val + Debug>(t: &mut Tape) -> (Vec<CellSpec<V>>, Vec<CellSpec<V>>, Vec<CellSpec<V>>) {
    let na = t.below(5);
    let mut a = vec![];
    for _ in 0..na {
        let off = t.range(-16, 16);
        let w = *t.choose(&CELL_SIZES);
        a.push(CellSpec { off, val: V::gen(t, w) });
    }
    let b = derive_cells(t, &a);
    let c = derive_cells(t, &b);
    (a, b, c)
}

fn build_region<V: Val + Debug>(cells: &[CellSpec<V>]) -> MemRegion<V> {
    let mut r = MemRegion::new(bs(8));
    for c in cells {
        r.insert_at_byte_index(c.val.clone(), c.off);
    }
    r
}

fn overlaps(c: &(i64, usize), d: &(i64, usize)) -> bool {
    c.0 < d.0 + d.1 as i64 && d.0 < c.0 + c.1 as i64
}

/// Labels for the cell relations of a region pair + the per-cell clause for cells stored in the merge.
fn region_post<V: Val + Debug>(a: &MemRegion<V>, b: &MemRegion<V>, out: &PairOut<MemRegion<V>>, ctx: &mut Ctx) -> CaseResult {
    let ra = region_raw(a);
    let rb = region_raw(b);
    let rm = region_raw(&out.m);
    let (mut exact, mut samepos, mut partial, mut onesided) = (false, false, false, false);
    for c in ra.keys() {
        if rb.contains_key(c) {
            exact = true;
        } else if rb.keys().any(|d| d.0 == c.0) {
            samepos = true;
        } else if rb.keys().any(|d| overlaps(c, d)) {
            partial = true;
        } else {
            onesided = true;
        }
    }
    for d in rb.keys() {
        if !ra.keys().any(|c| overlaps(c, d)) {
            onesided = true;
        }
    }
    if exact {
        ctx.label("cells:exact-common");
    }
    if samepos {
        ctx.label("cells:same-offset-other-size");
    }
    if partial {
        ctx.label("cells:partial-overlap");
    }
    if onesided {
        ctx.label("cells:one-sided");
    }
    if !rm.is_empty() {
        ctx.label("merge-keeps-cells");
    }
    // "Values at the same position and with the same size get merged via their merge function":
    // a cell stored in the merge must represent (in the value domain's own reading) what the same
    // cell of an input represents.
    for (c, y) in rm.iter() {
        for (side, r) in [("self", &ra), ("other", &rb)] {
            if let Some(x) = r.get(c) {
                if let Some(w) = V::not_incl(x, y) {
                    ctx.report(
                        format!("C03:{}:cell-merge-misses-member-of-{}", MemRegion::<V>::kind(), side),
                        format!("cell (offset {}, size {}) of the merge does not represent {}\n a = {:?}\n b = {:?}\n m = {:?}", c.0, c.1, w, a, b, out.m),
                    )?;
                }
            }
        }
    }
    Ok(())
}

// =============================================================================================
// Section drivers

/// Starvation floor relative to the number of *cases* (pairs) of a section (the engine's
/// `require_fraction` relates to evaluations, which here include the sub-checks of every pair).
fn require_of_cases(eng: &mut Engine, section: &str, label: &str, min_fraction: f64) {
    if matches!(eng.mode, crate::engine::Mode::Replay { .. }) || eng.violations.iter().any(|v| v.section == section) {
        return;
    }
    let n = eng.label_count(section, "pairs");
    let c = eng.label_count(section, label);
    if n == 0 || (c as f64) < min_fraction * n as f64 {
        eng.inconclusive.push(format!("generator starvation: section {} label {} = {} of {} pairs (< {:.3})", section, label, c, n, min_fraction));
    }
}

/// Chain clause: m2 = (a.merge(b)).merge(c) has absorbed a and b as well; merging them again (both
/// argument orders) must not change m2's set.  The pair (m, c) itself gets the full pair oracle.
fn check_chain<T: Sem>(a: &T, b: &T, c: &T, m: &T, ctx: &mut Ctx) -> CaseResult {
    let k = T::kind();
    let out2 = match check_pair(m, c, false, ctx)? {
        Some(o) => o,
        None => return Ok(()),
    };
    ctx.extra_evaluations(out2.evals);
    let m2 = &out2.m;
    for (x, name) in [(a, "first"), (b, "second")] {
        let r = match ctx.cut(|| m2.merge(x))? {
            Some(r) => r,
            None => return Ok(()),
        };
        let gr = match ctx.cut(|| r.g())? {
            Some(g) => g,
            None => return Ok(()),
        };
        if gr != out2.gm {
            ctx.report(
                format!("C03:{}:absorbed-merge-changes-set:chain:merged-with-earlier-input", k),
                format!("m2 = a.merge(b).merge(c); m2.merge({} input): {}\n a = {}\n b = {}\n c = {}\n m2 = {}\n result = {}", name, how::<T>(&gr, &out2.gm), a.show(), b.show(), c.show(), m2.show(), r.show()),
            )?;
        }
        let r = match ctx.cut(|| x.merge(m2))? {
            Some(r) => r,
            None => return Ok(()),
        };
        let gr = match ctx.cut(|| r.g())? {
            Some(g) => g,
            None => return Ok(()),
        };
        if gr != out2.gm {
            ctx.report(
                format!("C03:{}:absorbed-merge-changes-set:chain:earlier-input-with-merged", k),
                format!("m2 = a.merge(b).merge(c); ({} input).merge(m2): {}\n a = {}\n b = {}\n c = {}\n m2 = {}\n result = {}", name, how::<T>(&gr, &out2.gm), a.show(), b.show(), c.show(), m2.show(), r.show()),
            )?;
        }
    }
    ctx.extra_evaluations(4);
    Ok(())
}

fn both_orders<T: Sem>(a: &T, b: &T, c: &T, ctx: &mut Ctx, post: &dyn Fn(&T, &T, &PairOut<T>, &mut Ctx) -> CaseResult) -> CaseResult {
    ctx.label_n("pairs", 2);
    if let Some(out) = check_pair(a, b, true, ctx)? {
        ctx.extra_evaluations(out.evals);
        post(a, b, &out, ctx)?;
        check_chain(a, b, c, &out.m, ctx)?;
    }
    if let Some(out) = check_pair(b, a, true, ctx)? {
        ctx.extra_evaluations(out.evals);
        post(b, a, &out, ctx)?;
    }
    Ok(())
}

/// Random section over pairs decoded from tapes.
fn random_section<T, D>(eng: &mut Engine, name: &str, cases: u64, max_tape: usize, decode: D, post: &(dyn Fn(&T, &T, &PairOut<T>, &mut Ctx) -> CaseResult + Sync))
where
    T: Sem + Sync,
    D: Fn(&mut Tape) -> (T, T, T) + Sync,
{
    let kind = T::kind();
    eng.random(
        name,
        RandomSpec { cases, max_tape },
        |tape, ctx| {
            let (a, b, c) = match cut(|| decode(&mut Tape::new(tape))) {
                Ok(p) => p,
                Err(f) => return ctx.report(format!("C03:{}:construction:{}", kind, f.signature), f.detail),
            };
            let (sa, sb) = (a.show(), b.show());
            if sa != sb {
                ctx.nontrivial(fnv(format!("{}|{}", sa, sb).as_bytes()));
                ctx.label("a!=b");
            } else {
                ctx.label("a==b");
            }
            ctx.sample(|| format!("{} | {}", sa, sb));
            both_orders(&a, &b, &c, ctx, post)
        },
        |tape| {
            let (a, b, c) = decode(&mut Tape::new(tape));
            format!("a = {}\nb = {}\nc (chain clause only) = {}", a.show(), b.show(), c.show())
        },
    );
}

fn decode_iv_triple(t: &mut Tape) -> (IParts, IParts, IParts) {
    let w = *t.choose(&[4usize, 8, 2, 1]);
    let a = dom::decode_interval(t, w, true);
    let b = if t.prob(150) { iv_near(t, &a) } else { dom::decode_interval(t, w, true) };
    let c = if t.prob(170) { iv_near(t, &b) } else { dom::decode_interval(t, w, true) };
    // values wider than 8 bytes (vector registers): the bounds, hints and strides of an 8-byte triple, re-read as
    // 16-byte values (sign-extended). The implementation treats such intervals specially in several places
    // (no rounding of hints to the stride, no stride for casts).
    if w == 8 && t.prob(60) {
        let wide = |p: &IParts| {
            let mut q = p.clone();
            q.w = 16;
            q
        };
        return (wide(&a), wide(&b), wide(&c));
    }
    (a, b, c)
}

fn decode_data_triple<T: Val + RegisterDomain>(t: &mut Tape) -> (DataDomain<T>, DataDomain<T>, DataDomain<T>) {
    let w = *t.choose(&[8usize, 4, 1, 2]);
    let a = DataDomain::<T>::gen(t, w);
    let b = if t.prob(150) { DataDomain::<T>::near(t, &a, w) } else { DataDomain::<T>::gen(t, w) };
    let c = if t.prob(150) { DataDomain::<T>::near(t, &b, w) } else { DataDomain::<T>::gen(t, w) };
    (a, b, c)
}

fn data_post<T: Val + RegisterDomain>(a: &DataDomain<T>, b: &DataDomain<T>, out: &PairOut<DataDomain<T>>, ctx: &mut Ctx) -> CaseResult {
    let ia: BTreeSet<_> = out.ga.rel.keys().collect();
    let ib: BTreeSet<_> = out.gb.rel.keys().collect();
    if ia.intersection(&ib).next().is_some() {
        ctx.label("common-id");
    }
    if ia != ib {
        ctx.label("id-sets-differ");
    }
    if out.ga.abs.is_some() && out.gb.abs.is_some() {
        ctx.label("both-absolute");
    }
    if out.ga.abs.is_some() != out.gb.abs.is_some() {
        ctx.label("one-absolute");
    }
    if out.ga.top != out.gb.top {
        ctx.label("top-flag-on-one-side");
    }
    let _ = (a, b);
    Ok(())
}

fn map_section<V, S>(eng: &mut Engine, name: &str, cases: u64)
where
    V: Val + Sync + Send,
    S: Sync + Send + MapMergeStrategy<u8, V>,
    Map<V, S>: Sem + Sync + From<BTreeMap<u8, V>>,
    Map<V, S>: std::ops::Deref<Target = BTreeMap<u8, V>>,
{
    random_section::<Map<V, S>, _>(
        eng,
        name,
        cases,
        400,
        |t| {
            let (a, b, c) = gen_map_triple::<V>(t);
            (a.into(), b.into(), c.into())
        },
        &|a, b, out, ctx| {
            ctx.label(key_relation::<V>(a, b));
            if !out.m.is_empty() {
                ctx.label("merge-keeps-keys");
            }
            if out.m.len() < a.len().max(b.len()) {
                ctx.label("merge-drops-keys");
            }
            Ok(())
        },
    );
    require_of_cases(eng, name, "keys:partial-overlap", 0.03);
    require_of_cases(eng, name, "keys:equal", 0.02);
    require_of_cases(eng, name, "keys:disjoint", 0.01);
}

fn region_section<V: Val + Debug + Sync + Send>(eng: &mut Engine, name: &str, cases: u64) {
    random_section::<MemRegion<V>, _>(
        eng,
        name,
        cases,
        400,
        |t| {
            let (a, b, c) = gen_region_triple::<V>(t);
            (build_region(&a), build_region(&b), build_region(&c))
        },
        &|a, b, out, ctx| region_post(a, b, out, ctx),
    );
    require_of_cases(eng, name, "cells:exact-common", 0.10);
    require_of_cases(eng, name, "cells:partial-overlap", 0.03);
    require_of_cases(eng, name, "cells:one-sided", 0.10);
}

pub fn run(eng: &mut Engine) {
    eng.rule = "cases = ordered pairs (a, b) of abstract values of one kind and byte size; for each pair m = a.merge(b) is compared with the harness' own concretization: members of a and b must be members of m, a.merge(a) must represent a's set, merging m again with a, b or itself (both argument orders) must not change m's set, merge_with must agree with merge. 1-byte BitvectorDomain pairs and the reduced 1-byte interval universe (with hint/delay variants) are enumerated completely; wider intervals, DataDomains, maps (three strategies) and memory regions come from boundary-biased random tapes. Non-trivial = a != b; distinct by construction in enumerations, by hash of the pair's Debug form in random sections.".into();
    eng.assumptions = vec![
        "concretizations (interval {start+k*stride<=end} signed; BitvectorDomain value/all; DataDomain tagged values Abs/Rel(id,offset)/TopVal; Taint Top={untainted}, Tainted={tainted,untainted}; absent map key = bottom (Union) / every value (Intersect) / V::top() (MergeTop); memory region = constraints on exactly the stored cells, a DataDomain cell containing Top values constrains nothing) are faithful readings of the type documentation".into(),
        "preconditions respected: both sides have the same byte size (maps: all values of one pair; regions: cells of equal offset may differ in size, which the merge documents as 'not added'), regions have equal address size and are built by insert_at_byte_index (non-overlapping, no Top cells), widening hints only at constructor-reachable positions (lower hint <s start, upper hint >s end), interval widths <= 8 bytes plus 16-byte intervals whose bounds fit into 8 bytes".into(),
        "γ-equality ignores widening hints and the widening delay".into(),
    ];

    // development aid: C03_ONLY=<substring> runs only the matching groups (unset in real runs)
    let only = std::env::var("C03_ONLY").ok();
    let want = |n: &str| only.as_ref().map(|o| n.contains(o.as_str())).unwrap_or(true);

    // ---- 1. BitvectorDomain, 1 byte: all 257^2 pairs, members enumerated
    if want("bitvector") {
        let vals: Vec<BitvectorDomain> = (0..257u32).map(|i| if i == 256 { BitvectorDomain::Top(bs(1)) } else { BitvectorDomain::Value(bv(val(i as u128, 1))) }).collect();
        let member = |g: &BG, c: u128| match g {
            BG::Top(w) => *w == 1,
            BG::Val(v, w) => *w == 1 && *v == c,
        };
        eng.enumerate(
            "bitvector-1byte-exhaustive",
            257 * 257,
            true,
            |i, ctx| {
                let (a, b) = (&vals[(i / 257) as usize], &vals[(i % 257) as usize]);
                if i / 257 != i % 257 {
                    ctx.nontrivial_by_construction(1);
                }
                if i % 9973 == 300 {
                    ctx.sample(|| format!("{:?} | {:?}", a, b));
                }
                ctx.label("pairs");
                if let Some(out) = check_pair(a, b, i % 257 == 0, ctx)? {
                    // clause (1) once more by complete enumeration of the 256 concrete values
                    for c in 0..256u128 {
                        if (member(&out.ga, c) || member(&out.gb, c)) && !member(&out.gm, c) {
                            ctx.report("C03:bitvector:merge-misses-member-of-self", format!("{:?}.merge({:?}) = {:?} does not represent {:#x}", a, b, out.m, c))?;
                        }
                    }
                    // (the engine marks an enumeration exhaustive only if evaluations == total, so the
                    // sub-checks of enumerated pairs are counted as a label instead of extra evaluations)
                    ctx.label_n("sub-checks", out.evals + 256);
                    match out.gm {
                        BG::Top(_) => ctx.label("merged-to-top"),
                        BG::Val(..) => ctx.label("merged-to-value"),
                    }
                }
                Ok(())
            },
            |i| format!("a = {:?}, b = {:?}", vals[(i / 257) as usize], vals[(i % 257) as usize]),
        );
    }

    // ---- 2. Taint: all 4 pairs x sizes
    if want("taint") {
        let sizes = [1usize, 2, 4, 8, 16];
        eng.enumerate(
            "taint-exhaustive",
            (sizes.len() * 4) as u64,
            true,
            |i, ctx| {
                let w = bs(sizes[(i / 4) as usize]);
                let mk = |t: bool| if t { Taint::Tainted(w) } else { Taint::Top(w) };
                let (a, b) = (mk(i & 1 == 1), mk(i & 2 == 2));
                if a != b {
                    ctx.nontrivial_by_construction(1);
                }
                ctx.sample(|| format!("{:?} | {:?}", a, b));
                ctx.label("pairs");
                if let Some(out) = check_pair(&a, &b, true, ctx)? {
                    ctx.label_n("sub-checks", out.evals);
                    ctx.label(if out.gm.may_be_tainted { "merged-tainted" } else { "merged-untainted" });
                }
                Ok(())
            },
            |i| format!("size {} a tainted {} b tainted {}", sizes[(i / 4) as usize], i & 1 == 1, i & 2 == 2),
        );
    }

    // ---- 3. IntervalDomain, reduced 1-byte universe x hint/delay variants: all ordered pairs
    if want("interval-1byte") {
        let uni = iv_universe(eng.tier.pick(false, true));
        let built: Vec<IntervalDomain> = uni.iter().map(|p| p.build()).collect();
        let n = uni.len() as u64;
        eng.extra.insert("interval_universe_size".into(), serde_json::json!(n));
        let name = "interval-1byte-reduced-all-pairs";
        eng.enumerate(
            name,
            n * n,
            true,
            |i, ctx| {
                let (ia, ib) = ((i / n) as usize, (i % n) as usize);
                let (a, b) = (&built[ia], &built[ib]);
                if ia != ib {
                    ctx.nontrivial_by_construction(1);
                }
                if i % 1_000_003 == 17 {
                    ctx.sample(|| format!("{:?} | {:?}", uni[ia], uni[ib]));
                }
                ctx.label("pairs");
                if let Some(out) = check_pair(a, b, ib == 0, ctx)? {
                    ctx.label_n("sub-checks", out.evals);
                    label_interval(&out, ctx);
                }
                Ok(())
            },
            |i| format!("a = {:?}\nb = {:?}", uni[(i / n) as usize], uni[(i % n) as usize]),
        );
        require_of_cases(eng, name, "kept:below-widening-threshold", 0.02);
        require_of_cases(eng, name, "widened:to-hint", 0.02);
        require_of_cases(eng, name, "widened:to-top", 0.02);
        require_of_cases(eng, name, "kept:join-equals-an-input", 0.02);
    }

    // ---- 4. IntervalDomain 1/2/4/8 bytes, random
    if want("interval-wide") {
        let name = "interval-wide-random";
        let cases = eng.tier.pick(800_000, 8_000_000);
        random_section::<IntervalDomain, _>(
            eng,
            name,
            cases,
            96,
            |t| {
                let (a, b, c) = decode_iv_triple(t);
                (a.build(), b.build(), c.build())
            },
            &|_a, _b, out, ctx| {
                ctx.label(&format!("w{}", out.gm.w));
                label_interval(out, ctx);
                Ok(())
            },
        );
        require_of_cases(eng, name, "kept:below-widening-threshold", 0.02);
        require_of_cases(eng, name, "widened:to-hint", 0.02);
        require_of_cases(eng, name, "widened:to-top", 0.02);
    }

    // ---- 5. DataDomain
    if want("data") {
        let cases = eng.tier.pick(300_000, 2_500_000);
        random_section::<DataDomain<IntervalDomain>, _>(eng, "data-interval-random", cases, 400, |t| decode_data_triple::<IntervalDomain>(t), &|a, b, out, ctx| data_post(a, b, out, ctx));
        require_of_cases(eng, "data-interval-random", "common-id", 0.10);
        require_of_cases(eng, "data-interval-random", "top-flag-on-one-side", 0.05);
        random_section::<DataDomain<BitvectorDomain>, _>(eng, "data-bitvector-random", cases, 300, |t| decode_data_triple::<BitvectorDomain>(t), &|a, b, out, ctx| data_post(a, b, out, ctx));
        require_of_cases(eng, "data-bitvector-random", "common-id", 0.10);
    }

    // ---- 6. DomainMap, three strategies
    if want("map") {
        let c = eng.tier.pick(80_000, 800_000);
        map_section::<IntervalDomain, UnionMergeStrategy>(eng, "map-union-interval", c);
        map_section::<DataDomain<IntervalDomain>, UnionMergeStrategy>(eng, "map-union-data-interval", c);
        map_section::<DataDomain<BitvectorDomain>, UnionMergeStrategy>(eng, "map-union-data-bitvector", c);
        map_section::<IntervalDomain, IntersectMergeStrategy>(eng, "map-intersect-interval", c);
        map_section::<BitvectorDomain, IntersectMergeStrategy>(eng, "map-intersect-bitvector", c);
        map_section::<DataDomain<IntervalDomain>, IntersectMergeStrategy>(eng, "map-intersect-data-interval", c);
        map_section::<IntervalDomain, MergeTopStrategy>(eng, "map-mergetop-interval", c);
        map_section::<DataDomain<IntervalDomain>, MergeTopStrategy>(eng, "map-mergetop-data-interval", c);
        map_section::<DataDomain<BitvectorDomain>, MergeTopStrategy>(eng, "map-mergetop-data-bitvector", c);
    }

    // ---- 7. MemRegion
    if want("region") {
        let c = eng.tier.pick(120_000, 1_000_000);
        region_section::<BitvectorDomain>(eng, "region-bitvector", c);
        region_section::<IntervalDomain>(eng, "region-interval", c);
        region_section::<DataDomain<IntervalDomain>>(eng, "region-data-interval", c);
        region_section::<DataDomain<BitvectorDomain>>(eng, "region-data-bitvector", c);
    }
}
