//! Independent P-Code integer semantics on (u128 value, byte width), written from the
//! P-Code reference manual. Does not use `apint` or any code of the repository for arithmetic;
//! only the operation *names* (enums) are shared.

use cwe_checker_lib::intermediate_representation::{BinOpType, CastOpType, UnOpType};

#[derive(Clone, Copy, Debug, PartialEq, Eq, Hash)]
pub struct V {
    pub v: u128,
    pub w: usize, // bytes, 1..=16
}

#[derive(Clone, Copy, Debug, PartialEq, Eq)]
pub enum R {
    /// defined value
    Val(V),
    /// P-Code leaves the result undefined (division by zero); width still defined
    Undef(usize),
    /// floating point: not modelled; width where known
    Float(usize),
}

pub fn mask(w: usize) -> u128 {
    if w >= 16 {
        u128::MAX
    } else {
        (1u128 << (8 * w)) - 1
    }
}

pub fn val(v: u128, w: usize) -> V {
    V { v: v & mask(w), w }
}

pub fn sext(v: u128, w: usize) -> i128 {
    let bits = 8 * w as u32;
    if bits >= 128 {
        v as i128
    } else {
        let sh = 128 - bits;
        ((v << sh) as i128) >> sh
    }
}

pub fn from_i(v: i128, w: usize) -> V {
    val(v as u128, w)
}

pub fn is_float_bin(op: BinOpType) -> bool {
    use BinOpType::*;
    matches!(op, FloatEqual | FloatNotEqual | FloatLess | FloatLessEqual | FloatAdd | FloatSub | FloatMult | FloatDiv)
}

/// Result width of a binary operation by the P-Code typing rules.
pub fn bin_width(op: BinOpType, wa: usize, wb: usize) -> usize {
    use BinOpType::*;
    match op {
        Piece => wa + wb,
        IntEqual | IntNotEqual | IntLess | IntSLess | IntLessEqual | IntSLessEqual | IntCarry | IntSCarry
        | IntSBorrow | BoolXOr | BoolAnd | BoolOr | FloatEqual | FloatNotEqual | FloatLess | FloatLessEqual => 1,
        _ => wa,
    }
}

pub fn bin(op: BinOpType, a: V, b: V) -> R {
    use BinOpType::*;
    let w = a.w;
    let bits = (8 * w) as u128;
    let m = mask(w);
    let sa = sext(a.v, a.w);
    let sb = sext(b.v, b.w);
    let b1 = |c: bool| R::Val(V { v: c as u128, w: 1 });
    match op {
        Piece => {
            let nw = a.w + b.w;
            assert!(nw <= 16);
            R::Val(val((a.v << (8 * b.w)) | b.v, nw))
        }
        IntEqual => b1(a.v == b.v),
        IntNotEqual => b1(a.v != b.v),
        IntLess => b1(a.v < b.v),
        IntLessEqual => b1(a.v <= b.v),
        IntSLess => b1(sa < sb),
        IntSLessEqual => b1(sa <= sb),
        IntAdd => R::Val(val(a.v.wrapping_add(b.v), w)),
        IntSub => R::Val(val(a.v.wrapping_sub(b.v), w)),
        IntCarry => {
            // unsigned overflow of a + b at width w
            if w >= 16 {
                b1(a.v.checked_add(b.v).is_none())
            } else {
                b1(a.v + b.v > m)
            }
        }
        IntSCarry => {
            // signed overflow of a + b at width w
            if w >= 16 {
                b1(sa.checked_add(sb).is_none())
            } else {
                let s = sa + sb;
                let min = -(1i128 << (8 * w - 1));
                let max = (1i128 << (8 * w - 1)) - 1;
                b1(s < min || s > max)
            }
        }
        IntSBorrow => {
            if w >= 16 {
                b1(sa.checked_sub(sb).is_none())
            } else {
                let s = sa - sb;
                let min = -(1i128 << (8 * w - 1));
                let max = (1i128 << (8 * w - 1)) - 1;
                b1(s < min || s > max)
            }
        }
        IntXOr | BoolXOr => R::Val(val(a.v ^ b.v, w)),
        IntAnd | BoolAnd => R::Val(val(a.v & b.v, w)),
        IntOr | BoolOr => R::Val(val(a.v | b.v, w)),
        IntLeft => {
            if b.v >= bits {
                R::Val(val(0, w))
            } else {
                R::Val(val(a.v << (b.v as u32), w))
            }
        }
        IntRight => {
            if b.v >= bits {
                R::Val(val(0, w))
            } else {
                R::Val(val(a.v >> (b.v as u32), w))
            }
        }
        IntSRight => {
            if b.v >= bits {
                R::Val(from_i(if sa < 0 { -1 } else { 0 }, w))
            } else {
                R::Val(from_i(sa >> (b.v as u32), w))
            }
        }
        IntMult => R::Val(val(a.v.wrapping_mul(b.v), w)),
        IntDiv => {
            if b.v == 0 {
                R::Undef(w)
            } else {
                R::Val(val(a.v / b.v, w))
            }
        }
        IntRem => {
            if b.v == 0 {
                R::Undef(w)
            } else {
                R::Val(val(a.v % b.v, w))
            }
        }
        IntSDiv => {
            if b.v == 0 {
                R::Undef(w)
            } else {
                // truncating division; MIN / -1 wraps to MIN
                R::Val(from_i(sa.wrapping_div(sb), w))
            }
        }
        IntSRem => {
            if b.v == 0 {
                R::Undef(w)
            } else {
                R::Val(from_i(sa.wrapping_rem(sb), w))
            }
        }
        FloatEqual | FloatNotEqual | FloatLess | FloatLessEqual => R::Float(1),
        FloatAdd | FloatSub | FloatMult | FloatDiv => R::Float(w),
    }
}

pub fn un(op: UnOpType, a: V) -> R {
    use UnOpType::*;
    match op {
        IntNegate => R::Val(val(!a.v, a.w)),
        Int2Comp => R::Val(val((!a.v).wrapping_add(1), a.w)),
        BoolNegate => R::Val(val((a.v == 0) as u128, a.w)),
        FloatNaN => R::Float(1),
        _ => R::Float(a.w),
    }
}

pub fn cast(op: CastOpType, a: V, w: usize) -> R {
    use CastOpType::*;
    match op {
        IntZExt => R::Val(val(a.v, w)),
        IntSExt => R::Val(from_i(sext(a.v, a.w), w)),
        PopCount => R::Val(val(a.v.count_ones() as u128, w)),
        LzCount => {
            let lz = a.v.leading_zeros() as usize - (128 - 8 * a.w);
            R::Val(val(lz as u128, w))
        }
        Int2Float | Float2Float | Trunc => R::Float(w),
    }
}

pub fn subpiece(a: V, low: usize, size: usize) -> V {
    let sh = 8 * low as u32;
    let v = if sh >= 128 { 0 } else { a.v >> sh };
    val(v, size)
}

pub const INT_BIN_OPS: [BinOpType; 26] = {
    use BinOpType::*;
    [
        Piece, IntEqual, IntNotEqual, IntLess, IntSLess, IntLessEqual, IntSLessEqual, IntAdd, IntSub, IntCarry,
        IntSCarry, IntSBorrow, IntXOr, IntAnd, IntOr, IntLeft, IntRight, IntSRight, IntMult, IntDiv, IntRem,
        IntSDiv, IntSRem, BoolXOr, BoolAnd, BoolOr,
    ]
};
pub const FLOAT_BIN_OPS: [BinOpType; 8] = {
    use BinOpType::*;
    [FloatEqual, FloatNotEqual, FloatLess, FloatLessEqual, FloatAdd, FloatSub, FloatMult, FloatDiv]
};
pub const UN_OPS: [UnOpType; 10] = {
    use UnOpType::*;
    [IntNegate, Int2Comp, BoolNegate, FloatNegate, FloatAbs, FloatSqrt, FloatCeil, FloatFloor, FloatRound, FloatNaN]
};
pub const CAST_OPS: [CastOpType; 7] = {
    use CastOpType::*;
    [IntZExt, IntSExt, Int2Float, Float2Float, Trunc, PopCount, LzCount]
};

pub fn is_bool_bin(op: BinOpType) -> bool {
    matches!(op, BinOpType::BoolAnd | BinOpType::BoolOr | BinOpType::BoolXOr)
}
pub fn is_shift(op: BinOpType) -> bool {
    matches!(op, BinOpType::IntLeft | BinOpType::IntRight | BinOpType::IntSRight)
}
